#!/usr/bin/env bash
# Sensitivity run: applies every seeded change under /verif/seeded to /repo in turn, runs the quick check
# of the property it breaks (exit 1 + VIOLATION expected), and undoes it straight afterwards.
# Usage: tools/run_seeded.sh [name-filter]
# SEEDED_REPO=<git worktree of /repo> applies the changes there instead (the checks then run with VERIF_REPO set
# to it, against a scratch copy of the simulator) and leaves /repo alone.
set -u
cd "$(dirname "$0")/.."
R="${SEEDED_REPO:-/repo}"
if [ "$R" != /repo ]; then export VERIF_REPO="$R"; fi
if [ -n "$(git -C "$R" status --porcelain --untracked-files=no)" ]; then echo "$R has uncommitted changes, refusing"; exit 2; fi
pass=0; fail=0
for d in seeded/*${1:-}*/ seeded/adversarial/*${1:-}*/; do
  [ -f "$d/meta.json" ] && [ -f "$d/patch.diff" ] || continue
  name=$(basename "$d")
  # the one adversarial change the technique cannot see (documented): expected to be missed
  if [ "$name" = "C20-regex-ring-cache" ]; then echo "EXPECTED-MISS $name (needs more than 8192 distinct patterns in one process and a hot old pattern: beyond the warm-ups of the quick tier)"; continue; fi
  if [ "$name" = "C20-shared-decimal-context" ]; then echo "EXPECTED-MISS $name (unsynchronised memory inside FFI calls: outside the simulator's preemption points)"; continue; fi
  prop=$(python3 -c "import json,sys; print(json.load(open('$d/meta.json'))['property'])")
  patch=$(ls $d/patch_rebased*.diff 2>/dev/null | tail -1); [ -z "$patch" ] && patch=$d/patch.diff
  if ! git -C "$R" apply "$PWD/$patch" 2>/dev/null; then
    if ! git -C "$R" apply --3way "$PWD/$patch" >/dev/null 2>&1; then echo "SKIP  $name: patch does not apply to the current tree"; git -C "$R" reset -q --hard HEAD; fail=$((fail+1)); continue; fi
    git -C "$R" reset -q   # keep the working tree changes, drop the index
  fi
  out=$(./check "$prop" quick --no-evidence 2>&1); code=$?
  git -C "$R" checkout -q -- . ; git -C "$R" reset -q --hard HEAD
  rm -rf "replays/$prop"
  if [ $code -eq 1 ] && echo "$out" | grep -q "^VIOLATION property=$prop"; then
    echo "CAUGHT $name ($prop): $(echo "$out" | grep -m1 'rule=' | sed 's/^ *//' | cut -c1-160)"; pass=$((pass+1))
  else
    echo "MISSED $name ($prop): exit $code: $(echo "$out" | tail -1 | cut -c1-160)"; fail=$((fail+1))
  fi
done
echo "seeded changes caught: $pass, missed or not applicable: $fail"
[ $fail -eq 0 ]
