#!/usr/bin/env python3
"""Writes sim/data/edge/*.dmn: small models built around constructs that are valid by the DMN schema but
degenerate (zero inputs, zero rules, zero entries, missing optional parts) - none of the shipped examples has
them, so no single fault on a shipped example produces them. C12 uses them as additional base texts."""
import os, sys
out = os.path.join(os.path.dirname(os.path.abspath(__file__)), '..', 'sim', 'data', 'edge')
os.makedirs(out, exist_ok=True)

HEAD = '''<?xml version="1.0" encoding="UTF-8"?>
<definitions namespace="urn:edge:{name}" name="edge_{name}" id="_def" xmlns="https://www.omg.org/spec/DMN/20191111/MODEL/">
  <inputData name="x" id="_x"><variable typeRef="number" name="x"/></inputData>
  <inputData name="s" id="_s"><variable typeRef="string" name="s"/></inputData>
'''
REQ = '''<informationRequirement id="_r1{k}"><requiredInput href="#_x"/></informationRequirement>
    <informationRequirement id="_r2{k}"><requiredInput href="#_s"/></informationRequirement>'''

def decision(logic, name='d', k='', typ=None, extra=''):
    t = f' typeRef="{typ}"' if typ else ''
    return f'''  <decision name="{name}" id="_{name}">
    <variable name="{name}"{t}/>
    {REQ.format(k=k)}
    {extra}{logic}
  </decision>
'''

M = {}
M['table_no_inputs_collect'] = decision('''<decisionTable hitPolicy="COLLECT" outputLabel="d">
      <output id="_o" typeRef="number"/>
      <rule id="_u1"><outputEntry><text>1</text></outputEntry></rule>
      <rule id="_u2"><outputEntry><text>x</text></outputEntry></rule>
    </decisionTable>''')
M['table_no_inputs_unique'] = decision('''<decisionTable hitPolicy="UNIQUE">
      <output id="_o" typeRef="string"/>
      <rule id="_u1"><outputEntry><text>"only " + s</text></outputEntry></rule>
    </decisionTable>''')
M['table_no_inputs_in_bkm'] = '''  <businessKnowledgeModel name="k" id="_k">
    <variable name="k"/>
    <encapsulatedLogic>
      <formalParameter name="p" typeRef="number"/>
      <decisionTable hitPolicy="FIRST">
        <output id="_o" typeRef="number"/>
        <rule id="_u1"><outputEntry><text>p + 1</text></outputEntry></rule>
        <rule id="_u2"><outputEntry><text>2</text></outputEntry></rule>
      </decisionTable>
    </encapsulatedLogic>
  </businessKnowledgeModel>
''' + decision('<literalExpression><text>k(x)</text></literalExpression>', extra='<knowledgeRequirement id="_kr"><requiredKnowledge href="#_k"/></knowledgeRequirement>\n    ')
for hp, agg in [('UNIQUE', ''), ('FIRST', ''), ('COLLECT', ' aggregation="SUM"'), ('COLLECT', ' aggregation="MIN"'), ('COLLECT', ''), ('PRIORITY', ''), ('OUTPUT ORDER', ''), ('RULE ORDER', ''), ('ANY', '')]:
    key = 'table_no_rules_' + hp.lower().replace(' ', '_') + (agg.split('"')[1].lower() if agg else '')
    M[key] = decision(f'''<decisionTable hitPolicy="{hp}"{agg}>
      <input id="_i"><inputExpression typeRef="number"><text>x</text></inputExpression></input>
      <output id="_o" typeRef="number"/>
    </decisionTable>''')
M['table_no_rules_default'] = decision('''<decisionTable hitPolicy="UNIQUE">
      <input id="_i"><inputExpression typeRef="number"><text>x</text></inputExpression></input>
      <output id="_o" typeRef="string"><defaultOutputEntry><text>"default " + s</text></defaultOutputEntry></output>
    </decisionTable>''')
M['table_one_input_one_rule'] = decision('''<decisionTable hitPolicy="UNIQUE">
      <input id="_i"><inputExpression typeRef="number"><text>x</text></inputExpression></input>
      <output id="_o" typeRef="string"/>
      <rule id="_u1"><inputEntry><text>&gt; 3</text></inputEntry><outputEntry><text>"big"</text></outputEntry></rule>
    </decisionTable>''')
M['table_two_outputs_unnamed'] = decision('''<decisionTable hitPolicy="FIRST">
      <input id="_i"><inputExpression typeRef="number"><text>x</text></inputExpression></input>
      <output id="_o1" typeRef="string"/>
      <output id="_o2" typeRef="number"/>
      <rule id="_u1"><inputEntry><text>-</text></inputEntry><outputEntry><text>s</text></outputEntry><outputEntry><text>x</text></outputEntry></rule>
    </decisionTable>''')
M['table_two_outputs_same_name'] = decision('''<decisionTable hitPolicy="COLLECT">
      <input id="_i"><inputExpression typeRef="number"><text>x</text></inputExpression></input>
      <output id="_o1" name="a" typeRef="string"/>
      <output id="_o2" name="a" typeRef="number"/>
      <rule id="_u1"><inputEntry><text>-</text></inputEntry><outputEntry><text>s</text></outputEntry><outputEntry><text>x</text></outputEntry></rule>
      <rule id="_u2"><inputEntry><text>&gt; 1</text></inputEntry><outputEntry><text>s</text></outputEntry><outputEntry><text>x</text></outputEntry></rule>
    </decisionTable>''')
M['table_collect_sum_of_strings'] = decision('''<decisionTable hitPolicy="COLLECT" aggregation="SUM">
      <input id="_i"><inputExpression typeRef="number"><text>x</text></inputExpression></input>
      <output id="_o" typeRef="string"/>
      <rule id="_u1"><inputEntry><text>-</text></inputEntry><outputEntry><text>s</text></outputEntry></rule>
      <rule id="_u2"><inputEntry><text>-</text></inputEntry><outputEntry><text>null</text></outputEntry></rule>
    </decisionTable>''')
M['table_collect_max_two_outputs'] = decision('''<decisionTable hitPolicy="COLLECT" aggregation="MAX">
      <input id="_i"><inputExpression typeRef="number"><text>x</text></inputExpression></input>
      <output id="_o1" name="a" typeRef="number"/>
      <output id="_o2" name="b" typeRef="number"/>
      <rule id="_u1"><inputEntry><text>-</text></inputEntry><outputEntry><text>1</text></outputEntry><outputEntry><text>x</text></outputEntry></rule>
      <rule id="_u2"><inputEntry><text>-</text></inputEntry><outputEntry><text>2</text></outputEntry><outputEntry><text>x</text></outputEntry></rule>
    </decisionTable>''')
M['table_priority_without_output_values'] = decision('''<decisionTable hitPolicy="PRIORITY">
      <input id="_i"><inputExpression typeRef="number"><text>x</text></inputExpression></input>
      <output id="_o" typeRef="string"/>
      <rule id="_u1"><inputEntry><text>-</text></inputEntry><outputEntry><text>"a"</text></outputEntry></rule>
      <rule id="_u2"><inputEntry><text>-</text></inputEntry><outputEntry><text>"b"</text></outputEntry></rule>
    </decisionTable>''')
M['table_output_order_value_not_listed'] = decision('''<decisionTable hitPolicy="OUTPUT ORDER">
      <input id="_i"><inputExpression typeRef="number"><text>x</text></inputExpression></input>
      <output id="_o" typeRef="string"><outputValues><text>"a","b"</text></outputValues></output>
      <rule id="_u1"><inputEntry><text>-</text></inputEntry><outputEntry><text>"zzz"</text></outputEntry></rule>
      <rule id="_u2"><inputEntry><text>-</text></inputEntry><outputEntry><text>s</text></outputEntry></rule>
      <rule id="_u3"><inputEntry><text>-</text></inputEntry><outputEntry><text>null</text></outputEntry></rule>
    </decisionTable>''')
M['table_input_values_and_annotations'] = decision('''<decisionTable hitPolicy="UNIQUE" preferredOrientation="Rule-as-Column">
      <input id="_i" label="the x"><inputExpression typeRef="number"><text>x</text></inputExpression><inputValues><text>[1..5]</text></inputValues></input>
      <output id="_o" typeRef="string" label="out"/>
      <annotation name="why"/>
      <rule id="_u1"><description>first</description><inputEntry><text>&lt; 3</text></inputEntry><outputEntry><text>"low"</text></outputEntry><annotationEntry><text>because</text></annotationEntry></rule>
      <rule id="_u2"><inputEntry><text>&gt;= 3</text></inputEntry><outputEntry><text>"high"</text></outputEntry><annotationEntry><text/></annotationEntry></rule>
    </decisionTable>''')
M['table_crosstab'] = decision('''<decisionTable hitPolicy="ANY" preferredOrientation="CrossTable">
      <input id="_i1"><inputExpression><text>x</text></inputExpression></input>
      <input id="_i2"><inputExpression><text>s</text></inputExpression></input>
      <output id="_o"/>
      <rule id="_u1"><inputEntry><text>-</text></inputEntry><inputEntry><text>-</text></inputEntry><outputEntry><text>x</text></outputEntry></rule>
    </decisionTable>''')
M['table_input_expression_empty'] = decision('''<decisionTable hitPolicy="UNIQUE">
      <input id="_i"><inputExpression typeRef="number"><text></text></inputExpression></input>
      <output id="_o" typeRef="string"/>
      <rule id="_u1"><inputEntry><text>-</text></inputEntry><outputEntry><text>"a"</text></outputEntry></rule>
    </decisionTable>''')
M['context_zero_entries'] = decision('<context/>')
M['context_only_result'] = decision('<context><contextEntry><literalExpression><text>x + 1</text></literalExpression></contextEntry></context>')
M['context_result_first'] = decision('''<context>
      <contextEntry><literalExpression><text>1</text></literalExpression></contextEntry>
      <contextEntry><variable name="a"/><literalExpression><text>x</text></literalExpression></contextEntry>
    </context>''')
M['context_duplicate_entry_names'] = decision('''<context>
      <contextEntry><variable name="a"/><literalExpression><text>x</text></literalExpression></contextEntry>
      <contextEntry><variable name="a"/><literalExpression><text>a + 1</text></literalExpression></contextEntry>
      <contextEntry><variable name="b"/><context/></contextEntry>
    </context>''')
M['context_entry_without_value'] = decision('''<context>
      <contextEntry><variable name="a"/></contextEntry>
      <contextEntry><variable name="b"/><literalExpression><text>a</text></literalExpression></contextEntry>
    </context>''')
M['relation_zero_rows'] = decision('<relation><column name="a"/><column name="b"/></relation>')
M['relation_zero_columns'] = decision('<relation><row/></relation>')
M['relation_empty'] = decision('<relation/>')
M['relation_nested'] = decision('''<relation><column name="a"/><column name="b"/>
      <row><list><literalExpression><text>x</text></literalExpression><context/></list><relation/></row>
      <row><literalExpression><text>s</text></literalExpression><list/></row>
    </relation>''')
M['list_zero_items'] = decision('<list/>')
M['list_of_empty_lists'] = decision('<list><list/><list><list/></list><context/></list>')
M['invocation_zero_bindings'] = '''  <businessKnowledgeModel name="k" id="_k">
    <variable name="k"/>
    <encapsulatedLogic><literalExpression><text>42</text></literalExpression></encapsulatedLogic>
  </businessKnowledgeModel>
''' + decision('<invocation><literalExpression><text>k</text></literalExpression></invocation>', extra='<knowledgeRequirement id="_kr"><requiredKnowledge href="#_k"/></knowledgeRequirement>\n    ')
M['invocation_without_callee'] = decision('<invocation><binding><parameter name="p"/><literalExpression><text>x</text></literalExpression></binding></invocation>')
M['invocation_binding_without_value'] = '''  <businessKnowledgeModel name="k" id="_k">
    <variable name="k"/>
    <encapsulatedLogic><formalParameter name="p"/><literalExpression><text>p</text></literalExpression></encapsulatedLogic>
  </businessKnowledgeModel>
''' + decision('<invocation><literalExpression><text>k</text></literalExpression><binding><parameter name="p"/></binding><binding><parameter name="q"/><literalExpression><text>1</text></literalExpression></binding></invocation>', extra='<knowledgeRequirement id="_kr"><requiredKnowledge href="#_k"/></knowledgeRequirement>\n    ')
M['function_zero_params'] = decision('<functionDefinition><literalExpression><text>x * 2</text></literalExpression></functionDefinition>') + decision('<literalExpression><text>d()</text></literalExpression>', name='e', k='e', extra='<informationRequirement id="_rd"><requiredDecision href="#_d"/></informationRequirement>\n    ')
M['function_without_body'] = decision('<functionDefinition><formalParameter name="p"/></functionDefinition>') + decision('<literalExpression><text>d(1)</text></literalExpression>', name='e', k='e', extra='<informationRequirement id="_rd"><requiredDecision href="#_d"/></informationRequirement>\n    ')
M['function_duplicate_params'] = decision('<functionDefinition><formalParameter name="p"/><formalParameter name="p"/><literalExpression><text>p</text></literalExpression></functionDefinition>') + decision('<literalExpression><text>d(1, 2)</text></literalExpression>', name='e', k='e', extra='<informationRequirement id="_rd"><requiredDecision href="#_d"/></informationRequirement>\n    ')
M['function_kind_java'] = decision('<functionDefinition kind="Java"><formalParameter name="p"/><context><contextEntry><variable name="class"/><literalExpression><text>"java.lang.Math"</text></literalExpression></contextEntry><contextEntry><variable name="method signature"/><literalExpression><text>"cos(double)"</text></literalExpression></contextEntry></context></functionDefinition>') + decision('<literalExpression><text>d(1)</text></literalExpression>', name='e', k='e', extra='<informationRequirement id="_rd"><requiredDecision href="#_d"/></informationRequirement>\n    ')
M['decision_without_logic'] = decision('') + decision('<literalExpression><text>d</text></literalExpression>', name='e', k='e', extra='<informationRequirement id="_rd"><requiredDecision href="#_d"/></informationRequirement>\n    ')
M['decision_without_variable'] = '''  <decision name="d" id="_d">
    <literalExpression><text>1</text></literalExpression>
  </decision>
'''
M['bkm_without_logic'] = '''  <businessKnowledgeModel name="k" id="_k"><variable name="k"/></businessKnowledgeModel>
''' + decision('<literalExpression><text>k(x)</text></literalExpression>', extra='<knowledgeRequirement id="_kr"><requiredKnowledge href="#_k"/></knowledgeRequirement>\n    ')
M['bkm_without_variable'] = '''  <businessKnowledgeModel name="k" id="_k">
    <encapsulatedLogic><formalParameter name="p"/><literalExpression><text>p</text></literalExpression></encapsulatedLogic>
  </businessKnowledgeModel>
''' + decision('<literalExpression><text>k(x)</text></literalExpression>', extra='<knowledgeRequirement id="_kr"><requiredKnowledge href="#_k"/></knowledgeRequirement>\n    ')
M['literal_empty_text'] = decision('<literalExpression><text></text></literalExpression>')
M['literal_no_text'] = decision('<literalExpression/>')
M['literal_imported_values'] = decision('<literalExpression expressionLanguage="urn:other"><importedValues importType="x" name="y"><importedElement>z</importedElement></importedValues></literalExpression>')
M['input_without_variable'] = '''  <inputData name="y" id="_y"/>
''' + decision('<literalExpression><text>y</text></literalExpression>', extra='<informationRequirement id="_ry"><requiredInput href="#_y"/></informationRequirement>\n    ')
M['two_decisions_same_name'] = decision('<literalExpression><text>1</text></literalExpression>') + decision('<literalExpression><text>2</text></literalExpression>').replace('id="_d"', 'id="_d2"').replace('_r1', '_r1b').replace('_r2', '_r2b')
M['two_inputs_same_name'] = '''  <inputData name="x" id="_x2"><variable typeRef="string" name="x"/></inputData>
''' + decision('<literalExpression><text>x</text></literalExpression>', extra='<informationRequirement id="_rx2"><requiredInput href="#_x2"/></informationRequirement>\n    ')
M['decision_named_like_input'] = decision('<literalExpression><text>x + 1</text></literalExpression>', name='x')
M['item_definition_empty'] = '''  <itemDefinition name="t" id="_t"/>
  <inputData name="y" id="_y"><variable typeRef="t" name="y"/></inputData>
''' + decision('<literalExpression><text>y</text></literalExpression>', typ='t', extra='<informationRequirement id="_ry"><requiredInput href="#_y"/></informationRequirement>\n    ')
M['item_collection_of_components'] = '''  <itemDefinition name="t" id="_t" isCollection="true"><itemComponent name="a" id="_ta"><typeRef>number</typeRef></itemComponent><itemComponent name="b" id="_tb" isCollection="true"><typeRef>string</typeRef></itemComponent></itemDefinition>
  <inputData name="y" id="_y"><variable typeRef="t" name="y"/></inputData>
''' + decision('<literalExpression><text>y</text></literalExpression>', typ='t', extra='<informationRequirement id="_ry"><requiredInput href="#_y"/></informationRequirement>\n    ')
M['item_allowed_values'] = '''  <itemDefinition name="t" id="_t"><typeRef>number</typeRef><allowedValues><text>[1..5], &gt; 100</text></allowedValues></itemDefinition>
  <itemDefinition name="u" id="_u"><typeRef>string</typeRef><allowedValues><text>"a", "b</text></allowedValues></itemDefinition>
  <inputData name="y" id="_y"><variable typeRef="t" name="y"/></inputData>
  <inputData name="z" id="_z"><variable typeRef="u" name="z"/></inputData>
''' + decision('<literalExpression><text>[y, z]</text></literalExpression>', extra='<informationRequirement id="_ry"><requiredInput href="#_y"/></informationRequirement><informationRequirement id="_rz"><requiredInput href="#_z"/></informationRequirement>\n    ')
M['item_component_without_typeref'] = '''  <itemDefinition name="t" id="_t"><itemComponent name="a" id="_ta"/><itemComponent name="b" id="_tb"><itemComponent name="c" id="_tc"/></itemComponent></itemDefinition>
  <inputData name="y" id="_y"><variable typeRef="t" name="y"/></inputData>
''' + decision('<literalExpression><text>y.b.c</text></literalExpression>', extra='<informationRequirement id="_ry"><requiredInput href="#_y"/></informationRequirement>\n    ')
M['item_function_type'] = '''  <itemDefinition name="t" id="_t"><functionItem outputTypeRef="number"><parameters name="p" typeRef="number"/></functionItem></itemDefinition>
  <inputData name="y" id="_y"><variable typeRef="t" name="y"/></inputData>
''' + decision('<literalExpression><text>y(1)</text></literalExpression>', extra='<informationRequirement id="_ry"><requiredInput href="#_y"/></informationRequirement>\n    ')
M['decision_service_empty'] = decision('<literalExpression><text>x</text></literalExpression>') + '''  <decisionService name="svc" id="_svc"><variable name="svc"/></decisionService>
'''
M['decision_service_output_is_input_decision'] = decision('<literalExpression><text>x</text></literalExpression>') + '''  <decisionService name="svc" id="_svc"><variable name="svc"/><outputDecision href="#_d"/><inputDecision href="#_d"/><inputData href="#_x"/><inputData href="#_x"/></decisionService>
'''
M['decision_service_two_outputs_same'] = decision('<literalExpression><text>x</text></literalExpression>') + '''  <decisionService name="svc" id="_svc"><variable name="svc"/><outputDecision href="#_d"/><outputDecision href="#_d"/><encapsulatedDecision href="#_d"/></decisionService>
'''
M['requirement_to_wrong_kind'] = decision('<literalExpression><text>x</text></literalExpression>', extra='<informationRequirement id="_q1"><requiredDecision href="#_x"/></informationRequirement><informationRequirement id="_q2"><requiredInput href="#_d"/></informationRequirement><knowledgeRequirement id="_q3"><requiredKnowledge href="#_s"/></knowledgeRequirement><authorityRequirement id="_q4"><requiredAuthority href="#_nowhere"/></authorityRequirement>\n    ')
M['requirement_without_target'] = decision('<literalExpression><text>x</text></literalExpression>', extra='<informationRequirement id="_q1"/><knowledgeRequirement id="_q3"/>\n    ')
M['imports_and_extensions'] = '''  <import namespace="urn:other" name="other" importType="https://www.omg.org/spec/DMN/20191111/MODEL/"/>
  <extensionElements><anything xmlns="urn:x"><nested a="1"/></anything></extensionElements>
  <elementCollection name="c" id="_c"><drgElement href="#_d"/><drgElement href="#_missing"/></elementCollection>
  <businessContextElement/>
  <knowledgeSource name="ks" id="_ks"><authorityRequirement id="_ka"><requiredInput href="#_x"/></authorityRequirement></knowledgeSource>
  <textAnnotation id="_ta"><text>note</text></textAnnotation>
  <association id="_as"><sourceRef href="#_ta"/><targetRef href="#_d"/></association>
''' + decision('<literalExpression><text>other.thing + x</text></literalExpression>')
M['names_with_operators'] = '''  <inputData name="a+b" id="_ab"><variable typeRef="number" name="a+b"/></inputData>
  <inputData name="if then" id="_it"><variable typeRef="number" name="if then"/></inputData>
  <inputData name="x - 1" id="_xm"><variable typeRef="number" name="x - 1"/></inputData>
''' + decision('<literalExpression><text>a+b + if then + x - 1</text></literalExpression>', extra='<informationRequirement id="_q1"><requiredInput href="#_ab"/></informationRequirement><informationRequirement id="_q2"><requiredInput href="#_it"/></informationRequirement><informationRequirement id="_q3"><requiredInput href="#_xm"/></informationRequirement>\n    ')
M['cdata_comments_entities'] = decision('<literalExpression><text><![CDATA[if x < 3 then "a&b" else s]]><!-- c -->&#32;+ &quot;q&quot;<?pi x?></text></literalExpression>')
M['deep_list_literal'] = decision('<literalExpression><text>' + '[' * 40 + 'x' + ']' * 40 + '</text></literalExpression>')
M['deep_list_passed_through'] = decision('<literalExpression><text>' + '[' * 40 + 'x' + ']' * 40 + '</text></literalExpression>') + decision('<literalExpression><text>d</text></literalExpression>', name='e', k='e', typ='number', extra='<informationRequirement id="_rd"><requiredDecision href="#_d"/></informationRequirement>\n    ')
M['deep_nesting'] = decision('<context>' * 0 + ''.join('<list>' for _ in range(24)) + '<literalExpression><text>x</text></literalExpression>' + ''.join('</list>' for _ in range(24)))
M['deep_context_nesting'] = decision(''.join('<context><contextEntry><variable name="a"/>' for _ in range(16)) + '<literalExpression><text>x</text></literalExpression>' + ''.join('</contextEntry></context>' for _ in range(16)))
M['long_feel_expression'] = decision('<literalExpression><text>' + ' + '.join(['x'] * 80) + '</text></literalExpression>')
M['deep_feel_parentheses'] = decision('<literalExpression><text>' + '(' * 50 + 'x' + ')' * 50 + '</text></literalExpression>')
M['deep_feel_if'] = decision('<literalExpression><text>' + ''.join(f'if x = {i} then {i} else ' for i in range(30)) + '0</text></literalExpression>')
M['many_rules'] = decision('<decisionTable hitPolicy="COLLECT" aggregation="COUNT"><input id="_i"><inputExpression><text>x</text></inputExpression></input><output id="_o"/>' + ''.join(f'<rule id="_u{i}"><inputEntry><text>&gt; {i}</text></inputEntry><outputEntry><text>{i}</text></outputEntry></rule>' for i in range(40)) + '</decisionTable>')
M['chain_of_decisions'] = ''.join(f'''  <decision name="c{i}" id="_c{i}"><variable name="c{i}"/>{'<informationRequirement id="_q%d"><requiredDecision href="#_c%d"/></informationRequirement>' % (i, i - 1) if i else '<informationRequirement id="_q0"><requiredInput href="#_x"/></informationRequirement>'}<literalExpression><text>{'c%d + 1' % (i - 1) if i else 'x'}</text></literalExpression></decision>
''' for i in range(20))
SVC = lambda inner: '<decisionService name="svc" id="_svc"><variable name="svc"/>' + inner + '</decisionService>\n'
KR_SVC = '<knowledgeRequirement id="_kr"><requiredKnowledge href="#_svc"/></knowledgeRequirement>\n    '
M['cycle_service_encapsulates_its_invoker'] = decision('<literalExpression><text>svc(x)</text></literalExpression>', extra=KR_SVC) + decision('<literalExpression><text>1</text></literalExpression>', name='o', k='o') + SVC('<outputDecision href="#_o"/><encapsulatedDecision href="#_d"/><inputData href="#_x"/>')
M['cycle_service_outputs_its_invoker'] = decision('<literalExpression><text>svc(x)</text></literalExpression>', extra=KR_SVC) + SVC('<outputDecision href="#_d"/><inputData href="#_x"/>')
M['cycle_service_input_decision_is_its_invoker'] = decision('<literalExpression><text>svc(x)</text></literalExpression>', extra=KR_SVC) + decision('<literalExpression><text>d</text></literalExpression>', name='o', k='o', extra='<informationRequirement id="_rd"><requiredDecision href="#_d"/></informationRequirement>\n    ') + SVC('<outputDecision href="#_o"/><inputDecision href="#_d"/><inputData href="#_x"/>')
M['cycle_service_encapsulated_requires_invoker'] = decision('<literalExpression><text>svc(x)</text></literalExpression>', extra=KR_SVC) + decision('<literalExpression><text>e</text></literalExpression>', name='o', k='o', extra='<informationRequirement id="_re"><requiredDecision href="#_e"/></informationRequirement>\n    ') + decision('<literalExpression><text>d</text></literalExpression>', name='e', k='e', extra='<informationRequirement id="_rd"><requiredDecision href="#_d"/></informationRequirement>\n    ') + SVC('<outputDecision href="#_o"/><encapsulatedDecision href="#_e"/><inputData href="#_x"/>')
def bkm(name, body, reqs):
    return f'''  <businessKnowledgeModel name="{name}" id="_{name}"><variable name="{name}"/>
    <encapsulatedLogic><formalParameter name="p"/><literalExpression><text>{body}</text></literalExpression></encapsulatedLogic>
    {"".join('<knowledgeRequirement id="_%s_%s"><requiredKnowledge href="#_%s"/></knowledgeRequirement>' % (name, r, r) for r in reqs)}
  </businessKnowledgeModel>
'''
M['cycle_three_knowledge_models'] = bkm('k1', 'k2(p)', ['k2']) + bkm('k2', 'k3(p)', ['k3']) + bkm('k3', 'k1(p)', ['k1']) + decision('<literalExpression><text>k1(x)</text></literalExpression>', extra='<knowledgeRequirement id="_kr"><requiredKnowledge href="#_k1"/></knowledgeRequirement>\n    ')
M['cycle_two_sharing_a_node'] = bkm('k1', 'k2(p) + k3(p)', ['k2', 'k3']) + bkm('k2', 'k1(p)', ['k1']) + bkm('k3', 'k1(p)', ['k1']) + decision('<literalExpression><text>k1(x)</text></literalExpression>', extra='<knowledgeRequirement id="_kr"><requiredKnowledge href="#_k1"/></knowledgeRequirement>\n    ')
M['cycle_four_decisions'] = ''.join(decision(f'<literalExpression><text>c{(i + 1) % 4}</text></literalExpression>', name=f'c{i}', k=f'c{i}', extra=f'<informationRequirement id="_q{i}"><requiredDecision href="#_c{(i + 1) % 4}"/></informationRequirement>\n    ') for i in range(4))
M['cycle_decision_requires_itself_twice'] = decision('<literalExpression><text>d</text></literalExpression>', extra='<informationRequirement id="_q1"><requiredDecision href="#_d"/></informationRequirement><informationRequirement id="_q2"><requiredDecision href="#_d"/></informationRequirement>\n    ')
M['cycle_item_definition_through_collection_component'] = '''  <itemDefinition name="t" id="_t"><itemComponent name="a" id="_ta"><typeRef>number</typeRef></itemComponent><itemComponent name="kids" id="_tk" isCollection="true"><typeRef>t</typeRef></itemComponent></itemDefinition>
  <inputData name="y" id="_y"><variable typeRef="t" name="y"/></inputData>
''' + decision('<literalExpression><text>y.kids[1].kids[1].a</text></literalExpression>', extra='<informationRequirement id="_ry"><requiredInput href="#_y"/></informationRequirement>\n    ')
M['cycle_item_definitions_mutual'] = '''  <itemDefinition name="t" id="_t"><itemComponent name="u" id="_tu"><typeRef>u</typeRef></itemComponent></itemDefinition>
  <itemDefinition name="u" id="_u"><itemComponent name="t" id="_ut"><typeRef>t</typeRef></itemComponent></itemDefinition>
  <inputData name="y" id="_y"><variable typeRef="t" name="y"/></inputData>
''' + decision('<literalExpression><text>y.u.t.u</text></literalExpression>', extra='<informationRequirement id="_ry"><requiredInput href="#_y"/></informationRequirement>\n    ')
# a declared cycle next to an element of ANOTHER kind that carries the id of a node on the cycle
TWO = decision('<literalExpression><text>e</text></literalExpression>', extra='<informationRequirement id="_qe"><requiredDecision href="#_e"/></informationRequirement>\n    ') + decision('<literalExpression><text>d</text></literalExpression>', name='e', k='e', extra='<informationRequirement id="_qd"><requiredDecision href="#_d"/></informationRequirement>\n    ')
M['cycle_next_to_knowledge_model_with_the_id_of_a_node'] = TWO + bkm('g', 'p', []).replace('id="_g"', 'id="_d"')
M['cycle_next_to_service_with_the_id_of_a_node'] = TWO + decision('<literalExpression><text>1</text></literalExpression>', name='o', k='o') + SVC('<outputDecision href="#_o"/>').replace('id="_svc"', 'id="_e"')
M['cycle_next_to_input_with_the_id_of_a_node'] = TWO + '  <inputData name="y" id="_d"><variable typeRef="number" name="y"/></inputData>\n'
M['two_elements_of_different_kinds_with_one_id'] = decision('<literalExpression><text>g(x)</text></literalExpression>', extra='<knowledgeRequirement id="_kr"><requiredKnowledge href="#_d"/></knowledgeRequirement>\n    ') + bkm('g', 'p + 1', []).replace('id="_g"', 'id="_d"')
# size in DEPTH (valid, small, in no shipped example): a linear chain of item definitions nested in each other, a
# chain of contexts nested in each other as a literal, a chain of decisions requiring each other
def nested_types(n):
    defs = ''.join('  <itemDefinition name="t%d" id="_t%d"><itemComponent name="a%d" id="_t%da"><typeRef>%s</typeRef></itemComponent></itemDefinition>\n' % (i, i, i, i, 't%d' % (i + 1) if i + 1 < n else 'number') for i in range(n))
    return defs + '  <inputData name="y" id="_y"><variable typeRef="t0" name="y"/></inputData>\n' + decision('<literalExpression><text>y.a0 != null</text></literalExpression>', extra='<informationRequirement id="_ry"><requiredInput href="#_y"/></informationRequirement>\n    ')
M['deep_chain_of_nested_item_definitions_12'] = nested_types(12)
M['deep_chain_of_nested_item_definitions_24'] = nested_types(24)
M['deep_chain_of_nested_context_literals_24'] = decision('<literalExpression><text>' + ''.join('{k%d: ' % i for i in range(24)) + 'x' + '}' * 24 + '</text></literalExpression>')
for name, body in M.items():
    with open(os.path.join(out, name + '.dmn'), 'w') as f:
        f.write(HEAD.format(name=name) + body + '</definitions>\n')
print(len(M), 'edge models written to', os.path.normpath(out))
