#!/usr/bin/env bash
# False-alarm run: applies every benign (property-preserving) change under /verif/seeded/benign to a scratch
# worktree of /repo in turn and runs all quick checks against it (exit 0 and no VIOLATION expected).
# Usage: tools/run_benign.sh <worktree> [name-filter]     (a git worktree of /repo outside /repo and /verif)
# BENIGN_PROPS="C13 C20" restricts the checks that are run.
set -u
cd "$(dirname "$0")/.."
WT="${1:?worktree}"
ok=0; bad=0
for patch in seeded/benign/*${2:-}*.diff; do
  name=$(basename "$patch" .diff)
  if [ -n "${BENIGN_SKIP:-}" ] && echo "$name" | grep -Eq "$BENIGN_SKIP"; then continue; fi
  git -C "$WT" reset -q --hard HEAD ; git -C "$WT" clean -qfd -e Cargo.lock -e target >/dev/null 2>&1
  if ! git -C "$WT" apply "$PWD/$patch" 2>/dev/null && ! git -C "$WT" apply --3way "$PWD/$patch" >/dev/null 2>&1; then git -C "$WT" reset -q --hard HEAD; echo "SKIP   $name: patch does not apply to this tree (written against an earlier one)"; continue; fi
  git -C "$WT" reset -q   # a three-way application stages what it merged: keep the working tree, drop the index
  for prop in ${BENIGN_PROPS:-C12 C13 C17 C18 C20}; do
    out=$(VERIF_REPO="$WT" ./check "$prop" quick --no-evidence 2>&1); code=$?
    if [ $code -eq 0 ] && ! echo "$out" | grep -q "^VIOLATION"; then ok=$((ok+1)); echo "SILENT $name $prop"; else bad=$((bad+1)); echo "ALARM  $name $prop exit=$code: $(echo "$out" | grep -m2 -E 'VIOLATION|HARNESS|rule=|error' | tr '\n' ' ' | cut -c1-300)"; fi
  done
done
git -C "$WT" reset -q --hard HEAD
echo "benign runs silent: $ok, alarms or errors: $bad"
[ $bad -eq 0 ]
