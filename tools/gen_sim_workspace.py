#!/usr/bin/env python3
"""Generates the simulator's cargo workspace for the repository under verification.

  gen_sim_workspace.py <repo> <sim-dir>

1. Mirrors the working tree of <repo> (without target/ and .git/) into <sim-dir>/target/repo-copy,
   rewriting every `std::sync::` in the crates' Rust sources into `dmntk_verif_sync::` - the
   simulator's std-compatible module in which RwLock and Mutex block through the simulated
   scheduler and everything else is std's own item; `thread_local!` becomes the simulator's macro whose
   keys are per simulated thread inside a shuttle execution. That way a lock added anywhere in the
   dmntk crates (not only at the two import lines switched by hooks H2/H3) is a scheduling point.
   The hook module feel/src/verif.rs is excluded: its callback slots must stay real std locks.
   Files whose content did not change keep their modification time, so cargo rebuilds only what
   an edit to <repo> really touched.
2. Adds the dependency on dmntk-verif-sync to the manifest of every mirrored crate.
3. Writes <sim-dir>/Cargo.toml with [patch.crates-io] aiming every dmntk-* crate at the mirror
   (the repository's crates depend on the crates.io copies of each other; without the patch an
   edit to <repo> would not even be seen).
"""
import os, re, shutil, sys

repo, sim = os.path.abspath(sys.argv[1]), os.path.abspath(sys.argv[2])
copy = os.path.join(sim, 'target', 'repo-copy')
SKIP_DIRS = {'target', '.git', '.github', '.idea'}
NO_REWRITE = {os.path.join('feel', 'src', 'verif.rs')}

def write_if_changed(path, data):
    mode = 'rb'
    try:
        with open(path, mode) as f:
            if f.read() == data:
                return False
    except OSError:
        pass
    os.makedirs(os.path.dirname(path), exist_ok=True)
    with open(path, 'wb') as f:
        f.write(data)
    return True

crates = []
root_manifest = open(os.path.join(repo, 'Cargo.toml')).read()
m = re.search(r'members\s*=\s*\[(.*?)\]', root_manifest, re.S)
members = re.findall(r'"([^"]+)"', m.group(1)) if m else []

wanted = set()
for member in members:
    src_root = os.path.join(repo, member)
    if not os.path.isdir(src_root):
        continue
    for dirpath, dirnames, filenames in os.walk(src_root):
        dirnames[:] = [d for d in dirnames if d not in SKIP_DIRS]
        for fn in filenames:
            sp = os.path.join(dirpath, fn)
            rel = os.path.relpath(sp, repo)
            dp = os.path.join(copy, rel)
            wanted.add(dp)
            try:
                with open(sp, 'rb') as f:
                    data = f.read()
            except OSError:
                continue
            if fn.endswith('.rs') and rel not in NO_REWRITE and (os.sep + 'src' + os.sep) in (os.sep + rel):
                data = data.replace(b'std::sync::', b'dmntk_verif_sync::')
                # thread-local storage must be per simulated thread (all simulated threads share one OS thread)
                data = data.replace(b'std::thread_local!', b'thread_local!').replace(b'thread_local!', b'dmntk_verif_sync::thread_local!')
            if fn == 'Cargo.toml' and dirpath == src_root:
                text = data.decode('utf-8')
                name = re.search(r'^name\s*=\s*"([^"]+)"', text, re.M).group(1)
                crates.append((name, member))
                dep = 'dmntk-verif-sync = { path = "%s" }\n' % os.path.join(sim, 'crates', 'dmntk-verif-sync')
                # path dependencies stay relative: the mirror has the same layout
                if re.search(r'^\[dependencies\]\s*$', text, re.M):
                    text = re.sub(r'^\[dependencies\]\s*$', '[dependencies]\n' + dep.rstrip('\n'), text, count=1, flags=re.M)
                else:
                    text = text.rstrip('\n') + '\n\n[dependencies]\n' + dep
                data = text.encode('utf-8')
            write_if_changed(dp, data)

# remove files that no longer exist in the repository
for dirpath, dirnames, filenames in os.walk(copy, topdown=False):
    for fn in filenames:
        p = os.path.join(dirpath, fn)
        if p not in wanted:
            os.remove(p)
    if not os.listdir(dirpath) and dirpath != copy:
        os.rmdir(dirpath)

tpl = open(os.path.join(sim, 'Cargo.toml.in')).read()
patch = ''.join('%s = { path = "%s" }\n' % (name, os.path.join(copy, member)) for name, member in sorted(crates) if name.startswith('dmntk-'))
write_if_changed(os.path.join(sim, 'Cargo.toml'), tpl.replace('@PATCHES@', patch).encode('utf-8'))
lock = os.path.join(sim, 'Cargo.lock')
if not os.path.exists(lock):
    # the resolved lock file of the simulator workspace is committed as Cargo.lock.seed (everything in it
    # is in the offline cargo cache); the repository's own lock file is the fallback
    for candidate in (os.path.join(sim, 'Cargo.lock.seed'), os.path.join(repo, 'Cargo.lock')):
        if os.path.exists(candidate):
            shutil.copyfile(candidate, lock)
            break
