#!/usr/bin/env bash
# Runs the repository's own test suite with every dmntk-* crate linked against its SIBLING DIRECTORY of the
# working tree instead of the published crates.io version (the workspace members depend on the published versions of
# each other, so `cargo test --workspace` in /repo shows a change in crate X to X's own tests only). Used to judge
# repairs: the expected-value tests of model-evaluator, feel-evaluator and feel-parser (3 000+) then run on top of the
# repaired feel / feel-number / ... crates. Works in a scratch worktree of HEAD (plus the uncommitted diff), removed afterwards.
# Usage: tools/tree_tests.sh [repo]        prints the `test result` lines; expected failures: the three tests that
#                                          /root/.vp/BASELINE.json lists as always failing.
set -u
R="${1:-/repo}"
WT="$(mktemp -d /tmp/wt-tree.XXXXXX)"; rmdir "$WT"
git -C "$R" worktree add -q "$WT" HEAD || exit 2
git -C "$R" diff | git -C "$WT" apply 2>/dev/null
cp "$R/Cargo.lock" "$WT/" 2>/dev/null
{ echo; echo "[patch.crates-io]"; for d in common evaluator examples feel feel-evaluator feel-grammar feel-number feel-parser gendoc model model-evaluator recognizer server workspace; do echo "dmntk-$d = { path = \"$d\" }"; done; } >> "$WT/Cargo.toml"
(cd "$WT" && CARGO_NET_OFFLINE=true cargo test --workspace --no-fail-fast --offline 2>&1 | grep -E "^test result|FAILED|^error")
git -C "$R" worktree remove --force "$WT"
