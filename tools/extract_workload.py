#!/usr/bin/env python3
"""One-off extraction of (model file, invocable, input context) rows from the compliance tests of
/repo/model-evaluator into sim/data/c20_workload.json. The data file is committed; the simulator
reads model texts from the working tree of /repo at run time and never consults the expected
values of those tests (the oracle is call-alone vs call-concurrent)."""
import re, json, os, sys, glob
repo = sys.argv[1] if len(sys.argv) > 1 else '/repo'
rows = []
for path in sorted(glob.glob(repo + '/model-evaluator/src/tests/compliance/dmn_*.rs')):
    src = open(path).read()
    m = re.search(r'dmntk_examples::(DMN_(\w)_(\d+))\)', src)
    if not m:
        continue
    level, num = m.group(2), m.group(3)
    rel = {'2': 'compatibility/level_2/2_%s.dmn', '3': 'compatibility/level_3/3_%s.dmn', 'N': 'compatibility/non_compliant/n_%s.dmn', 'n': 'compatibility/non_compliant/n_%s.dmn'}.get(level)
    if not rel:
        continue
    rel = rel % num
    if not os.path.exists(os.path.join(repo, 'examples/src', rel)):
        continue
    consts = dict(re.findall(r'(?:const|static)\s+(\w+)\s*:\s*&str\s*=\s*r#"(.*?)"#\s*;', src, re.S))
    for fn in re.split(r'#\[test\]', src)[1:]:
        ctx = None
        mm = re.search(r'context\(\s*r#"(.*?)"#\s*\)', fn, re.S)
        if mm:
            ctx = mm.group(1)
        else:
            mm = re.search(r'context\(\s*(\w+)\s*\)', fn)
            if mm and mm.group(1) in consts:
                ctx = consts[mm.group(1)]
        for a in re.finditer(r'assert_(decision|business_knowledge_model)\(\s*&MODEL_EVALUATOR\s*,\s*"((?:[^"\\]|\\.)*)"\s*,\s*&ctx', fn):
            if ctx is not None:
                rows.append({'model': rel, 'invocable': a.group(2), 'ctx': ctx})
        for a in re.finditer(r'assert_decision_service\(\s*&MODEL_EVALUATOR\s*,\s*"((?:[^"\\]|\\.)*)"\s*,\s*r#"(.*?)"#', fn, re.S):
            rows.append({'model': rel, 'invocable': a.group(1), 'ctx': a.group(2)})
seen = set(); out = []
for r in rows:
    k = (r['model'], r['invocable'], r['ctx'])
    if k not in seen:
        seen.add(k); out.append(r)
json.dump(out, open(os.path.join(os.path.dirname(os.path.abspath(__file__)), '../sim/data/c20_workload.json'), 'w'), indent=0)
print(len(rows), len(out), len({r['model'] for r in out}))
