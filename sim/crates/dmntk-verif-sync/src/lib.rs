//! `std::sync::RwLock`-compatible lock whose blocking is decided by the simulator.
//!
//! Outside a simulated execution (`set_sim_active(false)`, the default) the lock is a transparent
//! wrapper over `std::sync::RwLock`. Inside a shuttle execution it models the futex based
//! `std::sync::RwLock` of Linux:
//!
//! * any number of readers or one writer,
//! * a reader is admitted only when the lock is not write-locked and no writer is waiting
//!   (writer preference) - also when the asking task already holds a read lock, so a re-entrant
//!   read with a queued writer blocks, as it does in production,
//! * a task may read-lock a lock it already read-holds as long as no writer waits,
//! * a write request of a task holding the lock itself blocks for ever (self-deadlock).
//!
//! Data and poison flag live in an inner `std::sync::RwLock` which is only ever `try_*`-locked
//! after the logical state admitted the task; blocked tasks `shuttle::thread::park()`, a release
//! `unpark()`s them. No shuttle function is called while the OS thread is unwinding: a guard
//! dropped during a panic updates the logical state and defers the wake-ups to `flush()` or to
//! the next lock operation.

use std::collections::BTreeMap;
use std::fmt;
use std::ops::{Deref, DerefMut};
use std::sync::atomic::{AtomicBool, AtomicU64, AtomicUsize, Ordering};
use std::sync::Mutex as StdMutex;

// Everything of std::sync that is not modelled is std's own item: the simulator's build rewrites
// `std::sync::` into `dmntk_verif_sync::` throughout the dmntk crates.
pub use std::sync::mpsc;
pub use std::sync::{Arc, Barrier, BarrierWaitResult, LockResult, PoisonError, TryLockError, TryLockResult, Weak};
pub use SimCondvar as Condvar;
pub use SimWaitTimeoutResult as WaitTimeoutResult;

/// `true` while a shuttle execution is running on this process.
static SIM_ACTIVE: AtomicBool = AtomicBool::new(false);
/// Source of lock identifiers (0 = not assigned yet).
static NEXT_LOCK_ID: AtomicUsize = AtomicUsize::new(1);
/// Observer of lock events.
static OBSERVER: StdMutex<Option<fn(LockEvent)>> = StdMutex::new(None);
/// Tasks whose wake-up was deferred because the releasing task was unwinding.
static DEFERRED: StdMutex<Vec<shuttle::thread::Thread>> = StdMutex::new(Vec::new());
/// Counters, see [stats].
static ST_READS: AtomicU64 = AtomicU64::new(0);
static ST_WRITES: AtomicU64 = AtomicU64::new(0);
static ST_BLOCKED: AtomicU64 = AtomicU64::new(0);
static ST_REENTRANT: AtomicU64 = AtomicU64::new(0);
static ST_MAX_NEST: AtomicU64 = AtomicU64::new(0);
static ST_READ_BLOCKED_BY_WAITING_WRITER: AtomicU64 = AtomicU64::new(0);
static ST_DEFERRED: AtomicU64 = AtomicU64::new(0);
static ST_MUTEX_LOCKS: AtomicU64 = AtomicU64::new(0);
/// Lock operations in either mode (a measure of the work of a plan).
static ST_OPS_ANY_MODE: AtomicU64 = AtomicU64::new(0);

/// Kinds of lock events reported to the observer.
#[derive(Debug, Clone, Copy, PartialEq, Eq)]
pub enum LockEventKind {
  MutexRequest,
  MutexAcquired,
  MutexBlocked,
  MutexReleased,
  ReadRequest,
  ReadAcquired,
  ReadBlocked,
  ReadReleased,
  WriteRequest,
  WriteAcquired,
  WriteBlocked,
  WriteReleased,
}

/// Lock event reported to the observer.
#[derive(Debug, Clone, Copy)]
pub struct LockEvent {
  pub kind: LockEventKind,
  pub lock: usize,
  pub task: usize,
  pub poisoned: bool,
}

/// Counters collected since the last [reset_stats].
#[derive(Debug, Clone, Copy, Default)]
pub struct Stats {
  pub reads: u64,
  pub writes: u64,
  pub blocked: u64,
  pub reentrant_reads: u64,
  pub max_read_nesting: u64,
  pub read_blocked_by_waiting_writer: u64,
  pub deferred_wakeups: u64,
  pub mutex_locks: u64,
  pub ops_any_mode: u64,
}

/// Switches the simulated mode on or off (process wide).
pub fn set_sim_active(active: bool) {
  SIM_ACTIVE.store(active, Ordering::SeqCst);
}

/// Returns `true` when the simulated mode is on.
pub fn sim_active() -> bool {
  SIM_ACTIVE.load(Ordering::SeqCst)
}

/// Installs the observer of lock events.
pub fn set_observer(observer: Option<fn(LockEvent)>) {
  *OBSERVER.lock().unwrap_or_else(PoisonError::into_inner) = observer;
}

/// Returns the counters.
pub fn stats() -> Stats {
  Stats {
    reads: ST_READS.load(Ordering::Relaxed),
    writes: ST_WRITES.load(Ordering::Relaxed),
    blocked: ST_BLOCKED.load(Ordering::Relaxed),
    reentrant_reads: ST_REENTRANT.load(Ordering::Relaxed),
    max_read_nesting: ST_MAX_NEST.load(Ordering::Relaxed),
    read_blocked_by_waiting_writer: ST_READ_BLOCKED_BY_WAITING_WRITER.load(Ordering::Relaxed),
    deferred_wakeups: ST_DEFERRED.load(Ordering::Relaxed),
    mutex_locks: ST_MUTEX_LOCKS.load(Ordering::Relaxed),
    ops_any_mode: ST_OPS_ANY_MODE.load(Ordering::Relaxed),
  }
}

/// Resets the counters.
pub fn reset_stats() {
  for c in [
    &ST_READS,
    &ST_WRITES,
    &ST_BLOCKED,
    &ST_REENTRANT,
    &ST_MAX_NEST,
    &ST_READ_BLOCKED_BY_WAITING_WRITER,
    &ST_DEFERRED,
    &ST_MUTEX_LOCKS,
    &ST_OPS_ANY_MODE,
  ] {
    c.store(0, Ordering::Relaxed);
  }
}

/// Forgets wake-ups deferred by an execution that was abandoned (called between executions).
pub fn reset_between_executions() {
  DEFERRED.lock().unwrap_or_else(PoisonError::into_inner).clear();
}

/// Delivers the wake-ups that were deferred while a task was unwinding.
/// Must be called by the harness after every `catch_unwind` inside a simulated task.
pub fn flush() {
  if !sim_active() || std::thread::panicking() {
    return;
  }
  let pending: Vec<shuttle::thread::Thread> = std::mem::take(&mut *DEFERRED.lock().unwrap_or_else(PoisonError::into_inner));
  for thread in pending {
    thread.unpark();
  }
}

fn emit(kind: LockEventKind, lock: usize, task: usize, poisoned: bool) {
  let observer = *OBSERVER.lock().unwrap_or_else(PoisonError::into_inner);
  if let Some(f) = observer {
    f(LockEvent { kind, lock, task, poisoned });
  }
}

fn me() -> usize {
  usize::from(shuttle::current::me())
}

/// Logical state of a lock in simulated mode.
#[derive(Default)]
struct State {
  /// Read-lock count per task.
  readers: BTreeMap<usize, usize>,
  /// Task holding the write lock.
  writer: Option<usize>,
  /// Tasks waiting for the write lock.
  waiting_writers: Vec<usize>,
  /// Parked tasks (readers and writers) to wake on release.
  parked: Vec<(usize, shuttle::thread::Thread)>,
}

/// A reader-writer lock with the API of `std::sync::RwLock`.
pub struct RwLock<T: ?Sized> {
  id: AtomicUsize,
  state: StdMutex<State>,
  inner: std::sync::RwLock<T>,
}

impl<T> RwLock<T> {
  /// Creates a new unlocked instance.
  pub const fn new(value: T) -> Self {
    Self {
      id: AtomicUsize::new(0),
      state: StdMutex::new(State {
        readers: BTreeMap::new(),
        writer: None,
        waiting_writers: Vec::new(),
        parked: Vec::new(),
      }),
      inner: std::sync::RwLock::new(value),
    }
  }
  /// Consumes the lock returning the data.
  pub fn into_inner(self) -> LockResult<T> {
    self.inner.into_inner()
  }
}

impl<T: Default> Default for RwLock<T> {
  fn default() -> Self {
    Self::new(T::default())
  }
}

impl<T> From<T> for RwLock<T> {
  fn from(value: T) -> Self {
    Self::new(value)
  }
}

impl<T: ?Sized + fmt::Debug> fmt::Debug for RwLock<T> {
  fn fmt(&self, f: &mut fmt::Formatter<'_>) -> fmt::Result {
    f.debug_struct("RwLock").field("inner", &&self.inner).finish()
  }
}

impl<T: ?Sized> RwLock<T> {
  fn id(&self) -> usize {
    let id = self.id.load(Ordering::Relaxed);
    if id != 0 {
      return id;
    }
    let fresh = NEXT_LOCK_ID.fetch_add(1, Ordering::Relaxed);
    match self.id.compare_exchange(0, fresh, Ordering::Relaxed, Ordering::Relaxed) {
      Ok(_) => fresh,
      Err(existing) => existing,
    }
  }

  fn st(&self) -> std::sync::MutexGuard<'_, State> {
    self.state.lock().unwrap_or_else(PoisonError::into_inner)
  }

  /// Returns `true` when the lock is poisoned.
  pub fn is_poisoned(&self) -> bool {
    self.inner.is_poisoned()
  }

  /// Clears the poisoned state.
  pub fn clear_poison(&self) {
    self.inner.clear_poison()
  }

  /// Locks for shared read access.
  pub fn read(&self) -> LockResult<RwLockReadGuard<'_, T>> {
    ST_OPS_ANY_MODE.fetch_add(1, Ordering::Relaxed);
    if !sim_active() {
      return match self.inner.read() {
        Ok(guard) => Ok(RwLockReadGuard {
          inner: Some(guard),
          lock: self,
          sim: false,
          task: 0,
        }),
        Err(poisoned) => Err(PoisonError::new(RwLockReadGuard {
          inner: Some(poisoned.into_inner()),
          lock: self,
          sim: false,
          task: 0,
        })),
      };
    }
    flush();
    let id = self.id();
    let task = me();
    emit(LockEventKind::ReadRequest, id, task, false);
    // a scheduling point before the acquisition
    shuttle::thread::sleep(std::time::Duration::ZERO);
    let mut blocked_once = false;
    loop {
      {
        let mut st = self.st();
        let write_locked = st.writer.is_some();
        let writers_waiting = !st.waiting_writers.is_empty();
        if !write_locked && !writers_waiting {
          let count = st.readers.entry(task).or_insert(0);
          *count += 1;
          let nesting = *count as u64;
          if nesting > 1 {
            ST_REENTRANT.fetch_add(1, Ordering::Relaxed);
          }
          ST_MAX_NEST.fetch_max(nesting, Ordering::Relaxed);
          break;
        }
        if !write_locked && writers_waiting && !blocked_once {
          ST_READ_BLOCKED_BY_WAITING_WRITER.fetch_add(1, Ordering::Relaxed);
        }
        // a parked task may wake spuriously and come here again: register once
        if !st.parked.iter().any(|(t, _)| *t == task) {
          st.parked.push((task, shuttle::thread::current()));
        }
      }
      if !blocked_once {
        blocked_once = true;
        ST_BLOCKED.fetch_add(1, Ordering::Relaxed);
        emit(LockEventKind::ReadBlocked, id, task, false);
      }
      shuttle::thread::park();
    }
    ST_READS.fetch_add(1, Ordering::Relaxed);
    match self.inner.try_read() {
      Ok(guard) => {
        emit(LockEventKind::ReadAcquired, id, task, false);
        Ok(RwLockReadGuard {
          inner: Some(guard),
          lock: self,
          sim: true,
          task,
        })
      }
      Err(TryLockError::Poisoned(poisoned)) => {
        emit(LockEventKind::ReadAcquired, id, task, true);
        Err(PoisonError::new(RwLockReadGuard {
          inner: Some(poisoned.into_inner()),
          lock: self,
          sim: true,
          task,
        }))
      }
      Err(TryLockError::WouldBlock) => {
        panic!("dmntk-verif-sync: inner lock busy after logical read admission (shim defect)")
      }
    }
  }

  /// Locks for exclusive write access.
  pub fn write(&self) -> LockResult<RwLockWriteGuard<'_, T>> {
    ST_OPS_ANY_MODE.fetch_add(1, Ordering::Relaxed);
    if !sim_active() {
      return match self.inner.write() {
        Ok(guard) => Ok(RwLockWriteGuard {
          inner: Some(guard),
          lock: self,
          sim: false,
          task: 0,
        }),
        Err(poisoned) => Err(PoisonError::new(RwLockWriteGuard {
          inner: Some(poisoned.into_inner()),
          lock: self,
          sim: false,
          task: 0,
        })),
      };
    }
    flush();
    let id = self.id();
    let task = me();
    emit(LockEventKind::WriteRequest, id, task, false);
    shuttle::thread::sleep(std::time::Duration::ZERO);
    let mut blocked_once = false;
    loop {
      {
        let mut st = self.st();
        if st.writer.is_none() && st.readers.is_empty() {
          st.writer = Some(task);
          st.waiting_writers.retain(|t| *t != task);
          break;
        }
        if !st.waiting_writers.contains(&task) {
          st.waiting_writers.push(task);
        }
        if !st.parked.iter().any(|(t, _)| *t == task) {
          st.parked.push((task, shuttle::thread::current()));
        }
      }
      if !blocked_once {
        blocked_once = true;
        ST_BLOCKED.fetch_add(1, Ordering::Relaxed);
        emit(LockEventKind::WriteBlocked, id, task, false);
      }
      shuttle::thread::park();
    }
    ST_WRITES.fetch_add(1, Ordering::Relaxed);
    match self.inner.try_write() {
      Ok(guard) => {
        emit(LockEventKind::WriteAcquired, id, task, false);
        Ok(RwLockWriteGuard {
          inner: Some(guard),
          lock: self,
          sim: true,
          task,
        })
      }
      Err(TryLockError::Poisoned(poisoned)) => {
        emit(LockEventKind::WriteAcquired, id, task, true);
        Err(PoisonError::new(RwLockWriteGuard {
          inner: Some(poisoned.into_inner()),
          lock: self,
          sim: true,
          task,
        }))
      }
      Err(TryLockError::WouldBlock) => {
        panic!("dmntk-verif-sync: inner lock busy after logical write admission (shim defect)")
      }
    }
  }

  /// Attempts to lock for shared read access without blocking.
  pub fn try_read(&self) -> std::sync::TryLockResult<RwLockReadGuard<'_, T>> {
    if !sim_active() {
      return match self.inner.try_read() {
        Ok(guard) => Ok(RwLockReadGuard {
          inner: Some(guard),
          lock: self,
          sim: false,
          task: 0,
        }),
        Err(TryLockError::Poisoned(poisoned)) => Err(TryLockError::Poisoned(PoisonError::new(RwLockReadGuard {
          inner: Some(poisoned.into_inner()),
          lock: self,
          sim: false,
          task: 0,
        }))),
        Err(TryLockError::WouldBlock) => Err(TryLockError::WouldBlock),
      };
    }
    flush();
    let id = self.id();
    let task = me();
    emit(LockEventKind::ReadRequest, id, task, false);
    shuttle::thread::sleep(std::time::Duration::ZERO);
    {
      let mut st = self.st();
      if st.writer.is_some() || !st.waiting_writers.is_empty() {
        return Err(TryLockError::WouldBlock);
      }
      let count = st.readers.entry(task).or_insert(0);
      *count += 1;
      ST_MAX_NEST.fetch_max(*count as u64, Ordering::Relaxed);
    }
    ST_READS.fetch_add(1, Ordering::Relaxed);
    match self.inner.try_read() {
      Ok(guard) => {
        emit(LockEventKind::ReadAcquired, id, task, false);
        Ok(RwLockReadGuard {
          inner: Some(guard),
          lock: self,
          sim: true,
          task,
        })
      }
      Err(TryLockError::Poisoned(poisoned)) => {
        emit(LockEventKind::ReadAcquired, id, task, true);
        Err(TryLockError::Poisoned(PoisonError::new(RwLockReadGuard {
          inner: Some(poisoned.into_inner()),
          lock: self,
          sim: true,
          task,
        })))
      }
      Err(TryLockError::WouldBlock) => {
        panic!("dmntk-verif-sync: inner lock busy after logical read admission (shim defect)")
      }
    }
  }

  /// Attempts to lock for exclusive write access without blocking.
  pub fn try_write(&self) -> std::sync::TryLockResult<RwLockWriteGuard<'_, T>> {
    if !sim_active() {
      return match self.inner.try_write() {
        Ok(guard) => Ok(RwLockWriteGuard {
          inner: Some(guard),
          lock: self,
          sim: false,
          task: 0,
        }),
        Err(TryLockError::Poisoned(poisoned)) => Err(TryLockError::Poisoned(PoisonError::new(RwLockWriteGuard {
          inner: Some(poisoned.into_inner()),
          lock: self,
          sim: false,
          task: 0,
        }))),
        Err(TryLockError::WouldBlock) => Err(TryLockError::WouldBlock),
      };
    }
    flush();
    let id = self.id();
    let task = me();
    emit(LockEventKind::WriteRequest, id, task, false);
    shuttle::thread::sleep(std::time::Duration::ZERO);
    {
      let mut st = self.st();
      if st.writer.is_some() || !st.readers.is_empty() {
        return Err(TryLockError::WouldBlock);
      }
      st.writer = Some(task);
    }
    ST_WRITES.fetch_add(1, Ordering::Relaxed);
    match self.inner.try_write() {
      Ok(guard) => {
        emit(LockEventKind::WriteAcquired, id, task, false);
        Ok(RwLockWriteGuard {
          inner: Some(guard),
          lock: self,
          sim: true,
          task,
        })
      }
      Err(TryLockError::Poisoned(poisoned)) => {
        emit(LockEventKind::WriteAcquired, id, task, true);
        Err(TryLockError::Poisoned(PoisonError::new(RwLockWriteGuard {
          inner: Some(poisoned.into_inner()),
          lock: self,
          sim: true,
          task,
        })))
      }
      Err(TryLockError::WouldBlock) => {
        panic!("dmntk-verif-sync: inner lock busy after logical write admission (shim defect)")
      }
    }
  }

  /// Returns a mutable reference to the data (no locking needed).
  pub fn get_mut(&mut self) -> LockResult<&mut T> {
    self.inner.get_mut()
  }

  /// Releases the logical lock and wakes (or defers waking) the parked tasks.
  fn release(&self, task: usize, write: bool) {
    let parked: Vec<(usize, shuttle::thread::Thread)> = {
      let mut st = self.st();
      if write {
        st.writer = None;
      } else if let Some(count) = st.readers.get_mut(&task) {
        *count -= 1;
        if *count == 0 {
          st.readers.remove(&task);
        }
      }
      if st.writer.is_none() {
        std::mem::take(&mut st.parked)
      } else {
        vec![]
      }
    };
    let id = self.id();
    if std::thread::panicking() {
      // no shuttle call while unwinding
      if !parked.is_empty() {
        ST_DEFERRED.fetch_add(parked.len() as u64, Ordering::Relaxed);
        DEFERRED.lock().unwrap_or_else(PoisonError::into_inner).extend(parked.into_iter().map(|(_, t)| t));
      }
      emit(if write { LockEventKind::WriteReleased } else { LockEventKind::ReadReleased }, id, task, write);
      return;
    }
    emit(if write { LockEventKind::WriteReleased } else { LockEventKind::ReadReleased }, id, task, false);
    for (_, thread) in parked {
      thread.unpark();
    }
  }
}

/// Guard of shared read access.
pub struct RwLockReadGuard<'a, T: ?Sized> {
  inner: Option<std::sync::RwLockReadGuard<'a, T>>,
  lock: &'a RwLock<T>,
  sim: bool,
  task: usize,
}

impl<T: ?Sized> Deref for RwLockReadGuard<'_, T> {
  type Target = T;
  fn deref(&self) -> &T {
    self.inner.as_ref().expect("guard alive")
  }
}

impl<T: ?Sized> Drop for RwLockReadGuard<'_, T> {
  fn drop(&mut self) {
    // release the real lock first, then the logical one
    self.inner.take();
    if self.sim {
      self.lock.release(self.task, false);
    }
  }
}

impl<T: ?Sized + fmt::Debug> fmt::Debug for RwLockReadGuard<'_, T> {
  fn fmt(&self, f: &mut fmt::Formatter<'_>) -> fmt::Result {
    (**self).fmt(f)
  }
}

impl<T: ?Sized + fmt::Display> fmt::Display for RwLockReadGuard<'_, T> {
  fn fmt(&self, f: &mut fmt::Formatter<'_>) -> fmt::Result {
    (**self).fmt(f)
  }
}

/// Guard of exclusive write access.
pub struct RwLockWriteGuard<'a, T: ?Sized> {
  inner: Option<std::sync::RwLockWriteGuard<'a, T>>,
  lock: &'a RwLock<T>,
  sim: bool,
  task: usize,
}

impl<T: ?Sized> Deref for RwLockWriteGuard<'_, T> {
  type Target = T;
  fn deref(&self) -> &T {
    self.inner.as_ref().expect("guard alive")
  }
}

impl<T: ?Sized> DerefMut for RwLockWriteGuard<'_, T> {
  fn deref_mut(&mut self) -> &mut T {
    self.inner.as_mut().expect("guard alive")
  }
}

impl<T: ?Sized> Drop for RwLockWriteGuard<'_, T> {
  fn drop(&mut self) {
    // dropping the inner guard while panicking poisons the inner lock, exactly as std does
    self.inner.take();
    if self.sim {
      self.lock.release(self.task, true);
    }
  }
}

impl<T: ?Sized + fmt::Debug> fmt::Debug for RwLockWriteGuard<'_, T> {
  fn fmt(&self, f: &mut fmt::Formatter<'_>) -> fmt::Result {
    (**self).fmt(f)
  }
}

impl<T: ?Sized + fmt::Display> fmt::Display for RwLockWriteGuard<'_, T> {
  fn fmt(&self, f: &mut fmt::Formatter<'_>) -> fmt::Result {
    (**self).fmt(f)
  }
}

// ------------------------------------------------------------------------------------------------
// Mutex
// ------------------------------------------------------------------------------------------------

#[derive(Default)]
struct MutexState {
  owner: Option<usize>,
  parked: Vec<(usize, shuttle::thread::Thread)>,
}

/// A mutual exclusion lock with the API of `std::sync::Mutex`. Not re-entrant: a task locking a
/// mutex it already holds blocks for ever, as with std.
pub struct Mutex<T: ?Sized> {
  id: AtomicUsize,
  state: StdMutex<MutexState>,
  inner: StdMutex<T>,
}

impl<T> Mutex<T> {
  /// Creates a new unlocked instance.
  pub const fn new(value: T) -> Self {
    Self {
      id: AtomicUsize::new(0),
      state: StdMutex::new(MutexState {
        owner: None,
        parked: Vec::new(),
      }),
      inner: StdMutex::new(value),
    }
  }
  /// Consumes the mutex returning the data.
  pub fn into_inner(self) -> LockResult<T> {
    self.inner.into_inner()
  }
}

impl<T: Default> Default for Mutex<T> {
  fn default() -> Self {
    Self::new(T::default())
  }
}

impl<T> From<T> for Mutex<T> {
  fn from(value: T) -> Self {
    Self::new(value)
  }
}

impl<T: ?Sized + fmt::Debug> fmt::Debug for Mutex<T> {
  fn fmt(&self, f: &mut fmt::Formatter<'_>) -> fmt::Result {
    f.debug_struct("Mutex").field("inner", &&self.inner).finish()
  }
}

impl<T: ?Sized> Mutex<T> {
  fn id(&self) -> usize {
    let id = self.id.load(Ordering::Relaxed);
    if id != 0 {
      return id;
    }
    let fresh = NEXT_LOCK_ID.fetch_add(1, Ordering::Relaxed);
    match self.id.compare_exchange(0, fresh, Ordering::Relaxed, Ordering::Relaxed) {
      Ok(_) => fresh,
      Err(existing) => existing,
    }
  }

  fn st(&self) -> std::sync::MutexGuard<'_, MutexState> {
    self.state.lock().unwrap_or_else(PoisonError::into_inner)
  }

  /// Returns `true` when the mutex is poisoned.
  pub fn is_poisoned(&self) -> bool {
    self.inner.is_poisoned()
  }

  /// Clears the poisoned state.
  pub fn clear_poison(&self) {
    self.inner.clear_poison()
  }

  /// Returns a mutable reference to the data (no locking needed).
  pub fn get_mut(&mut self) -> LockResult<&mut T> {
    self.inner.get_mut()
  }

  fn wrap<'a>(&'a self, result: std::sync::TryLockResult<std::sync::MutexGuard<'a, T>>, task: usize) -> LockResult<MutexGuard<'a, T>> {
    match result {
      Ok(guard) => Ok(MutexGuard {
        inner: Some(guard),
        lock: self,
        sim: true,
        task,
      }),
      Err(TryLockError::Poisoned(poisoned)) => Err(PoisonError::new(MutexGuard {
        inner: Some(poisoned.into_inner()),
        lock: self,
        sim: true,
        task,
      })),
      Err(TryLockError::WouldBlock) => panic!("dmntk-verif-sync: inner mutex busy after logical admission (shim defect)"),
    }
  }

  /// Acquires the mutex, blocking the current task until it is able to do so.
  pub fn lock(&self) -> LockResult<MutexGuard<'_, T>> {
    ST_OPS_ANY_MODE.fetch_add(1, Ordering::Relaxed);
    if !sim_active() {
      return match self.inner.lock() {
        Ok(guard) => Ok(MutexGuard {
          inner: Some(guard),
          lock: self,
          sim: false,
          task: 0,
        }),
        Err(poisoned) => Err(PoisonError::new(MutexGuard {
          inner: Some(poisoned.into_inner()),
          lock: self,
          sim: false,
          task: 0,
        })),
      };
    }
    flush();
    let id = self.id();
    let task = me();
    emit(LockEventKind::MutexRequest, id, task, false);
    shuttle::thread::sleep(std::time::Duration::ZERO);
    let mut blocked_once = false;
    loop {
      {
        let mut st = self.st();
        if st.owner.is_none() {
          st.owner = Some(task);
          break;
        }
        if !st.parked.iter().any(|(t, _)| *t == task) {
          st.parked.push((task, shuttle::thread::current()));
        }
      }
      if !blocked_once {
        blocked_once = true;
        ST_BLOCKED.fetch_add(1, Ordering::Relaxed);
        emit(LockEventKind::MutexBlocked, id, task, false);
      }
      shuttle::thread::park();
    }
    ST_MUTEX_LOCKS.fetch_add(1, Ordering::Relaxed);
    emit(LockEventKind::MutexAcquired, id, task, false);
    self.wrap(self.inner.try_lock(), task)
  }

  /// Attempts to acquire the mutex without blocking.
  pub fn try_lock(&self) -> TryLockResult<MutexGuard<'_, T>> {
    ST_OPS_ANY_MODE.fetch_add(1, Ordering::Relaxed);
    if !sim_active() {
      return match self.inner.try_lock() {
        Ok(guard) => Ok(MutexGuard {
          inner: Some(guard),
          lock: self,
          sim: false,
          task: 0,
        }),
        Err(TryLockError::Poisoned(poisoned)) => Err(TryLockError::Poisoned(PoisonError::new(MutexGuard {
          inner: Some(poisoned.into_inner()),
          lock: self,
          sim: false,
          task: 0,
        }))),
        Err(TryLockError::WouldBlock) => Err(TryLockError::WouldBlock),
      };
    }
    flush();
    let id = self.id();
    let task = me();
    emit(LockEventKind::MutexRequest, id, task, false);
    shuttle::thread::sleep(std::time::Duration::ZERO);
    {
      let mut st = self.st();
      if st.owner.is_some() {
        return Err(TryLockError::WouldBlock);
      }
      st.owner = Some(task);
    }
    ST_MUTEX_LOCKS.fetch_add(1, Ordering::Relaxed);
    emit(LockEventKind::MutexAcquired, id, task, false);
    match self.wrap(self.inner.try_lock(), task) {
      Ok(g) => Ok(g),
      Err(p) => Err(TryLockError::Poisoned(p)),
    }
  }

  fn release(&self, task: usize) {
    let parked: Vec<shuttle::thread::Thread> = {
      let mut st = self.st();
      st.owner = None;
      std::mem::take(&mut st.parked).into_iter().map(|(_, t)| t).collect()
    };
    let id = self.id();
    if std::thread::panicking() {
      if !parked.is_empty() {
        ST_DEFERRED.fetch_add(parked.len() as u64, Ordering::Relaxed);
        DEFERRED.lock().unwrap_or_else(PoisonError::into_inner).extend(parked);
      }
      emit(LockEventKind::MutexReleased, id, task, true);
      return;
    }
    emit(LockEventKind::MutexReleased, id, task, false);
    for thread in parked {
      thread.unpark();
    }
  }
}

/// Guard of a locked [Mutex].
pub struct MutexGuard<'a, T: ?Sized> {
  inner: Option<std::sync::MutexGuard<'a, T>>,
  lock: &'a Mutex<T>,
  sim: bool,
  task: usize,
}

impl<T: ?Sized> Deref for MutexGuard<'_, T> {
  type Target = T;
  fn deref(&self) -> &T {
    self.inner.as_ref().expect("guard alive")
  }
}

impl<T: ?Sized> DerefMut for MutexGuard<'_, T> {
  fn deref_mut(&mut self) -> &mut T {
    self.inner.as_mut().expect("guard alive")
  }
}

impl<T: ?Sized> Drop for MutexGuard<'_, T> {
  fn drop(&mut self) {
    self.inner.take();
    if self.sim {
      self.lock.release(self.task);
    }
  }
}

impl<T: ?Sized + fmt::Debug> fmt::Debug for MutexGuard<'_, T> {
  fn fmt(&self, f: &mut fmt::Formatter<'_>) -> fmt::Result {
    (**self).fmt(f)
  }
}

impl<T: ?Sized + fmt::Display> fmt::Display for MutexGuard<'_, T> {
  fn fmt(&self, f: &mut fmt::Formatter<'_>) -> fmt::Result {
    (**self).fmt(f)
  }
}

// ------------------------------------------------------------------------------------------------
// thread-local storage
// ------------------------------------------------------------------------------------------------

#[doc(hidden)]
pub use shuttle as __shuttle;

/// Thread-local key that is per *simulated* thread inside a shuttle execution (all simulated threads
/// share one OS thread, so std's thread-local storage would be shared by them) and std's own
/// thread-local storage otherwise. The simulator's build rewrites `thread_local!` in the dmntk crates
/// into [thread_local!](crate::thread_local).
pub struct DualLocalKey<T: 'static> {
  #[doc(hidden)]
  pub std_key: &'static std::thread::LocalKey<T>,
  #[doc(hidden)]
  pub sim_key: shuttle::thread::LocalKey<T>,
}

impl<T: 'static> DualLocalKey<T> {
  /// Acquires a reference to the value in this key.
  pub fn with<F, R>(&'static self, f: F) -> R
  where
    F: FnOnce(&T) -> R,
  {
    if sim_active() {
      self.sim_key.with(f)
    } else {
      self.std_key.with(f)
    }
  }
  /// Acquires a reference to the value in this key, `Err` when the key is destroyed.
  pub fn try_with<F, R>(&'static self, f: F) -> Result<R, std::thread::AccessError>
  where
    F: FnOnce(&T) -> R,
  {
    if sim_active() {
      Ok(self.sim_key.with(f))
    } else {
      self.std_key.try_with(f)
    }
  }
}

impl<T: 'static> DualLocalKey<std::cell::Cell<T>> {
  pub fn set(&'static self, value: T) {
    self.with(|cell| cell.set(value))
  }
  pub fn get(&'static self) -> T
  where
    T: Copy,
  {
    self.with(|cell| cell.get())
  }
  pub fn take(&'static self) -> T
  where
    T: Default,
  {
    self.with(|cell| cell.take())
  }
  pub fn replace(&'static self, value: T) -> T {
    self.with(|cell| cell.replace(value))
  }
}

impl<T: 'static> DualLocalKey<std::cell::RefCell<T>> {
  pub fn with_borrow<F, R>(&'static self, f: F) -> R
  where
    F: FnOnce(&T) -> R,
  {
    self.with(|cell| f(&cell.borrow()))
  }
  pub fn with_borrow_mut<F, R>(&'static self, f: F) -> R
  where
    F: FnOnce(&mut T) -> R,
  {
    self.with(|cell| f(&mut cell.borrow_mut()))
  }
  pub fn set(&'static self, value: T) {
    self.with(|cell| *cell.borrow_mut() = value)
  }
  pub fn take(&'static self) -> T
  where
    T: Default,
  {
    self.with(|cell| cell.take())
  }
  pub fn replace(&'static self, value: T) -> T {
    self.with(|cell| cell.replace(value))
  }
}

/// Declares thread-local keys with the syntax of `std::thread_local!`.
#[macro_export]
macro_rules! thread_local {
  () => {};
  ($(#[$attr:meta])* $vis:vis static $name:ident: $t:ty = const { $init:expr }; $($rest:tt)*) => (
    $crate::__dual_local_key!($(#[$attr])* $vis $name, $t, $init);
    $crate::thread_local!($($rest)*);
  );
  ($(#[$attr:meta])* $vis:vis static $name:ident: $t:ty = const { $init:expr }) => (
    $crate::__dual_local_key!($(#[$attr])* $vis $name, $t, $init);
  );
  ($(#[$attr:meta])* $vis:vis static $name:ident: $t:ty = $init:expr; $($rest:tt)*) => (
    $crate::__dual_local_key!($(#[$attr])* $vis $name, $t, $init);
    $crate::thread_local!($($rest)*);
  );
  ($(#[$attr:meta])* $vis:vis static $name:ident: $t:ty = $init:expr) => (
    $crate::__dual_local_key!($(#[$attr])* $vis $name, $t, $init);
  );
}

#[doc(hidden)]
#[macro_export]
macro_rules! __dual_local_key {
  ($(#[$attr:meta])* $vis:vis $name:ident, $t:ty, $init:expr) => {
    $(#[$attr])*
    $vis static $name: $crate::DualLocalKey<$t> = {
      ::std::thread_local! {
        static STD_KEY: $t = $init;
      }
      $crate::DualLocalKey {
        std_key: &STD_KEY,
        sim_key: $crate::__shuttle::thread::LocalKey {
          init: || $init,
          _p: ::std::marker::PhantomData,
        },
      }
    };
  };
}

// ------------------------------------------------------------------------------------------------
// one-time initialisation: OnceLock, Once, LazyLock
//
// std's versions block the OS thread while another thread runs the initialiser. Under the simulator all
// simulated threads share one OS thread, so an initialiser that passes a scheduling point (it evaluates
// something) while a second simulated thread asks for the same cell would hang the process. These
// versions park the second task instead.
// ------------------------------------------------------------------------------------------------

struct OnceState {
  running: Option<usize>,
  parked: Vec<(usize, shuttle::thread::Thread)>,
}

impl OnceState {
  const fn new() -> Self {
    Self { running: None, parked: Vec::new() }
  }
}

/// Resets the "running" mark when the initialiser unwinds, and wakes (or defers waking) the waiters.
struct OnceRunGuard<'a> {
  state: &'a StdMutex<OnceState>,
}

impl Drop for OnceRunGuard<'_> {
  fn drop(&mut self) {
    let parked: Vec<shuttle::thread::Thread> = {
      let mut st = self.state.lock().unwrap_or_else(PoisonError::into_inner);
      st.running = None;
      std::mem::take(&mut st.parked).into_iter().map(|(_, t)| t).collect()
    };
    if std::thread::panicking() {
      DEFERRED.lock().unwrap_or_else(PoisonError::into_inner).extend(parked);
    } else {
      for t in parked {
        t.unpark();
      }
    }
  }
}

/// Waits until no other task runs the initialiser; returns with the run mark taken (a guard) or `None`
/// when `done()` became true meanwhile.
fn once_enter<'a>(state: &'a StdMutex<OnceState>, done: impl Fn() -> bool) -> Option<OnceRunGuard<'a>> {
  let task = me();
  loop {
    {
      let mut st = state.lock().unwrap_or_else(PoisonError::into_inner);
      if done() {
        return None;
      }
      if st.running.is_none() {
        st.running = Some(task);
        return Some(OnceRunGuard { state });
      }
      if !st.parked.iter().any(|(t, _)| *t == task) {
        st.parked.push((task, shuttle::thread::current()));
      }
    }
    ST_BLOCKED.fetch_add(1, Ordering::Relaxed);
    shuttle::thread::park();
  }
}

/// A cell written at most once, with the API of `std::sync::OnceLock`.
pub struct OnceLock<T> {
  inner: std::sync::OnceLock<T>,
  state: StdMutex<OnceState>,
}

impl<T> OnceLock<T> {
  pub const fn new() -> Self {
    Self {
      inner: std::sync::OnceLock::new(),
      state: StdMutex::new(OnceState::new()),
    }
  }
  pub fn get(&self) -> Option<&T> {
    self.inner.get()
  }
  pub fn get_mut(&mut self) -> Option<&mut T> {
    self.inner.get_mut()
  }
  pub fn set(&self, value: T) -> Result<(), T> {
    self.inner.set(value)
  }
  pub fn into_inner(self) -> Option<T> {
    self.inner.into_inner()
  }
  pub fn take(&mut self) -> Option<T> {
    self.inner.take()
  }
  pub fn get_or_init<F>(&self, f: F) -> &T
  where
    F: FnOnce() -> T,
  {
    if let Some(v) = self.inner.get() {
      return v;
    }
    if !sim_active() {
      return self.inner.get_or_init(f);
    }
    flush();
    shuttle::thread::sleep(std::time::Duration::ZERO);
    if let Some(_guard) = once_enter(&self.state, || self.inner.get().is_some()) {
      let value = f();
      let _ = self.inner.set(value);
    }
    self.inner.get().expect("initialised")
  }
}

impl<T> Default for OnceLock<T> {
  fn default() -> Self {
    Self::new()
  }
}

impl<T: fmt::Debug> fmt::Debug for OnceLock<T> {
  fn fmt(&self, f: &mut fmt::Formatter<'_>) -> fmt::Result {
    self.inner.fmt(f)
  }
}

impl<T: Clone> Clone for OnceLock<T> {
  fn clone(&self) -> Self {
    let cell = Self::new();
    if let Some(v) = self.get() {
      let _ = cell.set(v.clone());
    }
    cell
  }
}

impl<T> From<T> for OnceLock<T> {
  fn from(value: T) -> Self {
    let cell = Self::new();
    let _ = cell.set(value);
    cell
  }
}

/// One-time global initialisation with the API of `std::sync::Once` (the commonly used part).
pub struct Once {
  done: AtomicBool,
  inner: std::sync::Once,
  state: StdMutex<OnceState>,
}

impl Once {
  pub const fn new() -> Self {
    Self {
      done: AtomicBool::new(false),
      inner: std::sync::Once::new(),
      state: StdMutex::new(OnceState::new()),
    }
  }
  pub fn is_completed(&self) -> bool {
    self.done.load(Ordering::SeqCst) || self.inner.is_completed()
  }
  pub fn call_once<F: FnOnce()>(&self, f: F) {
    if self.is_completed() {
      return;
    }
    if !sim_active() {
      self.inner.call_once(f);
      return;
    }
    flush();
    shuttle::thread::sleep(std::time::Duration::ZERO);
    if let Some(_guard) = once_enter(&self.state, || self.is_completed()) {
      f();
      self.done.store(true, Ordering::SeqCst);
    }
  }
}

impl fmt::Debug for Once {
  fn fmt(&self, f: &mut fmt::Formatter<'_>) -> fmt::Result {
    f.debug_struct("Once").field("completed", &self.is_completed()).finish()
  }
}

/// A value initialised on first access, with the API of `std::sync::LazyLock`.
pub struct LazyLock<T, F = fn() -> T> {
  cell: OnceLock<T>,
  init: StdMutex<Option<F>>,
}

impl<T, F: FnOnce() -> T> LazyLock<T, F> {
  pub const fn new(f: F) -> Self {
    Self {
      cell: OnceLock::new(),
      init: StdMutex::new(Some(f)),
    }
  }
  pub fn force(this: &Self) -> &T {
    this.cell.get_or_init(|| {
      let f = this.init.lock().unwrap_or_else(PoisonError::into_inner).take().expect("LazyLock instance has previously been poisoned");
      f()
    })
  }
}

impl<T, F: FnOnce() -> T> Deref for LazyLock<T, F> {
  type Target = T;
  fn deref(&self) -> &T {
    LazyLock::force(self)
  }
}

impl<T: fmt::Debug, F> fmt::Debug for LazyLock<T, F> {
  fn fmt(&self, f: &mut fmt::Formatter<'_>) -> fmt::Result {
    f.debug_struct("LazyLock").field("cell", &self.cell).finish()
  }
}

// ------------------------------------------------------------------------------------------------
// Condvar (works with the Mutex of this module)
// ------------------------------------------------------------------------------------------------

/// Result of a timed wait, like `std::sync::WaitTimeoutResult`.
#[derive(Debug, Clone, Copy, PartialEq, Eq)]
pub struct SimWaitTimeoutResult(bool);

impl SimWaitTimeoutResult {
  pub fn timed_out(&self) -> bool {
    self.0
  }
}

/// A condition variable with the API of `std::sync::Condvar` for [Mutex] of this module. Outside a
/// simulated execution it delegates to a real `std::sync::Condvar`; inside, waiters park and `notify_*`
/// unparks them. A timed wait is modelled as a wait whose time-out may fire at once (a correct program
/// has to cope with that schedule anyway).
pub struct SimCondvar {
  inner: std::sync::Condvar,
  waiters: StdMutex<Vec<(usize, shuttle::thread::Thread)>>,
}

impl SimCondvar {
  pub const fn new() -> Self {
    Self {
      inner: std::sync::Condvar::new(),
      waiters: StdMutex::new(Vec::new()),
    }
  }

  pub fn wait<'a, T>(&self, mut guard: MutexGuard<'a, T>) -> LockResult<MutexGuard<'a, T>> {
    let lock = guard.lock;
    if !guard.sim {
      // real threads: hand the inner guard to the real condition variable
      let inner = guard.inner.take().expect("guard alive");
      std::mem::forget(guard);
      return match self.inner.wait(inner) {
        Ok(g) => Ok(MutexGuard { inner: Some(g), lock, sim: false, task: 0 }),
        Err(p) => Err(PoisonError::new(MutexGuard { inner: Some(p.into_inner()), lock, sim: false, task: 0 })),
      };
    }
    let task = me();
    {
      let mut w = self.waiters.lock().unwrap_or_else(PoisonError::into_inner);
      if !w.iter().any(|(t, _)| *t == task) {
        w.push((task, shuttle::thread::current()));
      }
    }
    drop(guard); // releases the mutex (a scheduling point for the others)
    shuttle::thread::park();
    self.waiters.lock().unwrap_or_else(PoisonError::into_inner).retain(|(t, _)| *t != task);
    lock.lock()
  }

  pub fn wait_while<'a, T, F>(&self, mut guard: MutexGuard<'a, T>, mut condition: F) -> LockResult<MutexGuard<'a, T>>
  where
    F: FnMut(&mut T) -> bool,
  {
    while condition(&mut *guard) {
      guard = self.wait(guard)?;
    }
    Ok(guard)
  }

  pub fn wait_timeout<'a, T>(&self, guard: MutexGuard<'a, T>, dur: std::time::Duration) -> LockResult<(MutexGuard<'a, T>, SimWaitTimeoutResult)> {
    let lock = guard.lock;
    if !guard.sim {
      let mut guard = guard;
      let inner = guard.inner.take().expect("guard alive");
      std::mem::forget(guard);
      return match self.inner.wait_timeout(inner, dur) {
        Ok((g, r)) => Ok((MutexGuard { inner: Some(g), lock, sim: false, task: 0 }, SimWaitTimeoutResult(r.timed_out()))),
        Err(p) => {
          let (g, r) = p.into_inner();
          Err(PoisonError::new((MutexGuard { inner: Some(g), lock, sim: false, task: 0 }, SimWaitTimeoutResult(r.timed_out()))))
        }
      };
    }
    drop(guard);
    shuttle::thread::yield_now();
    match lock.lock() {
      Ok(g) => Ok((g, SimWaitTimeoutResult(true))),
      Err(p) => Err(PoisonError::new((p.into_inner(), SimWaitTimeoutResult(true)))),
    }
  }

  pub fn wait_timeout_while<'a, T, F>(&self, mut guard: MutexGuard<'a, T>, dur: std::time::Duration, mut condition: F) -> LockResult<(MutexGuard<'a, T>, SimWaitTimeoutResult)>
  where
    F: FnMut(&mut T) -> bool,
  {
    // in simulated time a timed wait is one scheduling point long: the condition is looked at before and after it
    if !condition(&mut *guard) {
      return Ok((guard, SimWaitTimeoutResult(false)));
    }
    match self.wait_timeout(guard, dur) {
      Ok((mut g, _)) => {
        let still = condition(&mut *g);
        Ok((g, SimWaitTimeoutResult(still)))
      }
      Err(p) => Err(p),
    }
  }

  pub fn notify_one(&self) {
    if !sim_active() {
      self.inner.notify_one();
      return;
    }
    let first = {
      let mut w = self.waiters.lock().unwrap_or_else(PoisonError::into_inner);
      if w.is_empty() {
        None
      } else {
        Some(w.remove(0))
      }
    };
    if let Some((_, t)) = first {
      if std::thread::panicking() {
        DEFERRED.lock().unwrap_or_else(PoisonError::into_inner).push(t);
      } else {
        t.unpark();
      }
    }
  }

  pub fn notify_all(&self) {
    if !sim_active() {
      self.inner.notify_all();
      return;
    }
    let all: Vec<(usize, shuttle::thread::Thread)> = std::mem::take(&mut *self.waiters.lock().unwrap_or_else(PoisonError::into_inner));
    for (_, t) in all {
      if std::thread::panicking() {
        DEFERRED.lock().unwrap_or_else(PoisonError::into_inner).push(t);
      } else {
        t.unpark();
      }
    }
  }
}

impl Default for SimCondvar {
  fn default() -> Self {
    Self::new()
  }
}

impl fmt::Debug for SimCondvar {
  fn fmt(&self, f: &mut fmt::Formatter<'_>) -> fmt::Result {
    f.debug_struct("Condvar").finish_non_exhaustive()
  }
}


// ------------------------------------------------------------------------------------------------
// atomics: std's atomics with a scheduling point in front of every access while simulated, so that
// a protocol built from loads and stores is interleaved between them and a spin loop lets the task
// it is waiting for run
// ------------------------------------------------------------------------------------------------

static ST_ATOMIC_OPS: AtomicU64 = AtomicU64::new(0);

/// Number of simulated atomic accesses so far.
pub fn atomic_ops() -> u64 {
  ST_ATOMIC_OPS.load(Ordering::Relaxed)
}

#[inline]
fn atomic_point() {
  if sim_active() && !std::thread::panicking() {
    ST_ATOMIC_OPS.fetch_add(1, Ordering::Relaxed);
    shuttle::thread::sleep(std::time::Duration::ZERO);
  }
}

pub mod atomic {
  use super::atomic_point;
  pub use std::sync::atomic::{compiler_fence, fence, Ordering};

  macro_rules! atomic_common {
    ($name:ident, $std:ty, $prim:ty) => {
      #[derive(Default)]
      #[repr(transparent)]
      pub struct $name($std);

      impl $name {
        pub const fn new(v: $prim) -> Self {
          Self(<$std>::new(v))
        }
        pub fn get_mut(&mut self) -> &mut $prim {
          self.0.get_mut()
        }
        pub fn into_inner(self) -> $prim {
          self.0.into_inner()
        }
        pub fn load(&self, order: Ordering) -> $prim {
          atomic_point();
          self.0.load(order)
        }
        pub fn store(&self, v: $prim, order: Ordering) {
          atomic_point();
          self.0.store(v, order)
        }
        pub fn swap(&self, v: $prim, order: Ordering) -> $prim {
          atomic_point();
          self.0.swap(v, order)
        }
        pub fn compare_exchange(&self, current: $prim, new: $prim, success: Ordering, failure: Ordering) -> Result<$prim, $prim> {
          atomic_point();
          self.0.compare_exchange(current, new, success, failure)
        }
        pub fn compare_exchange_weak(&self, current: $prim, new: $prim, success: Ordering, failure: Ordering) -> Result<$prim, $prim> {
          atomic_point();
          // no spurious failure in the model: one fewer source of nondeterminism
          self.0.compare_exchange(current, new, success, failure)
        }
        pub fn fetch_update<F>(&self, set_order: Ordering, fetch_order: Ordering, f: F) -> Result<$prim, $prim>
        where
          F: FnMut($prim) -> Option<$prim>,
        {
          atomic_point();
          self.0.fetch_update(set_order, fetch_order, f)
        }
        pub fn as_ptr(&self) -> *mut $prim {
          self.0.as_ptr()
        }
      }

      impl From<$prim> for $name {
        fn from(v: $prim) -> Self {
          Self::new(v)
        }
      }

      impl std::fmt::Debug for $name {
        fn fmt(&self, f: &mut std::fmt::Formatter<'_>) -> std::fmt::Result {
          std::fmt::Debug::fmt(&self.0, f)
        }
      }
    };
  }

  macro_rules! atomic_int {
    ($name:ident, $std:ty, $prim:ty) => {
      atomic_common!($name, $std, $prim);
      impl $name {
        pub fn fetch_add(&self, v: $prim, order: Ordering) -> $prim {
          atomic_point();
          self.0.fetch_add(v, order)
        }
        pub fn fetch_sub(&self, v: $prim, order: Ordering) -> $prim {
          atomic_point();
          self.0.fetch_sub(v, order)
        }
        pub fn fetch_and(&self, v: $prim, order: Ordering) -> $prim {
          atomic_point();
          self.0.fetch_and(v, order)
        }
        pub fn fetch_nand(&self, v: $prim, order: Ordering) -> $prim {
          atomic_point();
          self.0.fetch_nand(v, order)
        }
        pub fn fetch_or(&self, v: $prim, order: Ordering) -> $prim {
          atomic_point();
          self.0.fetch_or(v, order)
        }
        pub fn fetch_xor(&self, v: $prim, order: Ordering) -> $prim {
          atomic_point();
          self.0.fetch_xor(v, order)
        }
        pub fn fetch_max(&self, v: $prim, order: Ordering) -> $prim {
          atomic_point();
          self.0.fetch_max(v, order)
        }
        pub fn fetch_min(&self, v: $prim, order: Ordering) -> $prim {
          atomic_point();
          self.0.fetch_min(v, order)
        }
      }
    };
  }

  atomic_int!(AtomicUsize, std::sync::atomic::AtomicUsize, usize);
  atomic_int!(AtomicIsize, std::sync::atomic::AtomicIsize, isize);
  atomic_int!(AtomicU64, std::sync::atomic::AtomicU64, u64);
  atomic_int!(AtomicI64, std::sync::atomic::AtomicI64, i64);
  atomic_int!(AtomicU32, std::sync::atomic::AtomicU32, u32);
  atomic_int!(AtomicI32, std::sync::atomic::AtomicI32, i32);
  atomic_int!(AtomicU16, std::sync::atomic::AtomicU16, u16);
  atomic_int!(AtomicI16, std::sync::atomic::AtomicI16, i16);
  atomic_int!(AtomicU8, std::sync::atomic::AtomicU8, u8);
  atomic_int!(AtomicI8, std::sync::atomic::AtomicI8, i8);

  atomic_common!(AtomicBool, std::sync::atomic::AtomicBool, bool);
  impl AtomicBool {
    pub fn fetch_and(&self, v: bool, order: Ordering) -> bool {
      atomic_point();
      self.0.fetch_and(v, order)
    }
    pub fn fetch_nand(&self, v: bool, order: Ordering) -> bool {
      atomic_point();
      self.0.fetch_nand(v, order)
    }
    pub fn fetch_or(&self, v: bool, order: Ordering) -> bool {
      atomic_point();
      self.0.fetch_or(v, order)
    }
    pub fn fetch_xor(&self, v: bool, order: Ordering) -> bool {
      atomic_point();
      self.0.fetch_xor(v, order)
    }
    pub fn fetch_not(&self, order: Ordering) -> bool {
      atomic_point();
      self.0.fetch_xor(true, order)
    }
  }

  /// `AtomicPtr` with a scheduling point in front of every access while simulated.
  #[repr(transparent)]
  pub struct AtomicPtr<T>(std::sync::atomic::AtomicPtr<T>);

  impl<T> Default for AtomicPtr<T> {
    fn default() -> Self {
      Self::new(std::ptr::null_mut())
    }
  }

  impl<T> AtomicPtr<T> {
    pub const fn new(p: *mut T) -> Self {
      Self(std::sync::atomic::AtomicPtr::new(p))
    }
    pub fn get_mut(&mut self) -> &mut *mut T {
      self.0.get_mut()
    }
    pub fn into_inner(self) -> *mut T {
      self.0.into_inner()
    }
    pub fn load(&self, order: Ordering) -> *mut T {
      atomic_point();
      self.0.load(order)
    }
    pub fn store(&self, p: *mut T, order: Ordering) {
      atomic_point();
      self.0.store(p, order)
    }
    pub fn swap(&self, p: *mut T, order: Ordering) -> *mut T {
      atomic_point();
      self.0.swap(p, order)
    }
    pub fn compare_exchange(&self, current: *mut T, new: *mut T, success: Ordering, failure: Ordering) -> Result<*mut T, *mut T> {
      atomic_point();
      self.0.compare_exchange(current, new, success, failure)
    }
    pub fn compare_exchange_weak(&self, current: *mut T, new: *mut T, success: Ordering, failure: Ordering) -> Result<*mut T, *mut T> {
      atomic_point();
      self.0.compare_exchange(current, new, success, failure)
    }
    pub fn fetch_update<F>(&self, set_order: Ordering, fetch_order: Ordering, f: F) -> Result<*mut T, *mut T>
    where
      F: FnMut(*mut T) -> Option<*mut T>,
    {
      atomic_point();
      self.0.fetch_update(set_order, fetch_order, f)
    }
  }

  impl<T> std::fmt::Debug for AtomicPtr<T> {
    fn fmt(&self, f: &mut std::fmt::Formatter<'_>) -> std::fmt::Result {
      std::fmt::Debug::fmt(&self.0, f)
    }
  }
}
