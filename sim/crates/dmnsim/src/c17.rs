//! C17 - the workspace holds exactly the models its history of operations leaves in it.
//!
//! Seeded histories of add/replace/remove/clear/deploy/evaluate/restart over the model alphabet,
//! checked operation by operation against a *relational* reference model (it accepts every
//! behaviour the property leaves open), with the state read through hook H1 and behaviourally.

use crate::core::*;
use crate::driver::{panic_site, scratch_dir, take_last_panic};
use crate::models::*;
use crate::rng::{derive, Hasher, Rng};
use dmntk_feel::context::FeelContext;
use dmntk_workspace::{VerifSnapshot, Workspace};
use serde_json::{json, Value};
use std::collections::{BTreeMap, BTreeSet};
use std::panic::{catch_unwind, AssertUnwindSafe};
use std::sync::OnceLock;

pub struct C17;

struct Setup {
  models: Vec<AlphaModel>,
  facts: AlphaFacts,
}

static SETUP: OnceLock<Setup> = OnceLock::new();

fn setup() -> &'static Setup {
  SETUP.get_or_init(|| {
    let models = alphabet();
    let facts = establish_facts(&models);
    Setup { models, facts }
  })
}

/// One stored model as the reference sees it.
#[derive(Clone, Debug, PartialEq, Eq)]
pub struct Elem {
  pub ns: String,
  pub name: String,
  /// Alphabet key of the stored text (G is recorded as B: the texts are identical).
  pub key: String,
}

/// Reference state.
#[derive(Clone, Debug, Default)]
pub struct RefState {
  pub stored: Vec<Elem>,
  /// Deployed: model name -> alphabet key of the text the evaluator was built from.
  pub deployed: BTreeMap<String, String>,
}

pub fn canonical_key(key: &str) -> &str {
  if key == "G" {
    "B"
  } else {
    key
  }
}

pub fn elem_of(s: &Setup, key: &str) -> Option<Elem> {
  s.facts.keys.get(key).map(|(ns, name)| Elem {
    ns: ns.clone(),
    name: name.clone(),
    key: canonical_key(key).to_string(),
  })
}

fn pairs(stored: &[Elem]) -> Vec<(String, String)> {
  stored.iter().map(|e| (e.ns.clone(), e.name.clone())).collect()
}

/// Structural invariants of a snapshot: the three collections describe the same set.
pub fn check_invariants(sn: &VerifSnapshot) -> Result<(), (String, String)> {
  let mut seen_ns = BTreeSet::new();
  let mut seen_name = BTreeSet::new();
  for (ns, name) in &sn.definitions {
    if !seen_ns.insert(ns.clone()) {
      return Err(("list-duplicate-namespace".into(), format!("two stored models share namespace {}", ns)));
    }
    if !seen_name.insert(name.clone()) {
      return Err(("list-duplicate-name".into(), format!("two stored models share name {}", name)));
    }
  }
  for (k, (ns, _)) in &sn.by_namespace {
    if k != ns {
      return Err(("namespace-index-key-mismatch".into(), format!("namespace index key {} maps to a model of namespace {}", k, ns)));
    }
  }
  for (k, (_, name)) in &sn.by_name {
    if k != name {
      return Err(("name-index-key-mismatch".into(), format!("name index key {} maps to a model of name {}", k, name)));
    }
  }
  let list: BTreeSet<(String, String)> = sn.definitions.iter().cloned().collect();
  let by_ns: BTreeSet<(String, String)> = sn.by_namespace.values().cloned().collect();
  let by_name: BTreeSet<(String, String)> = sn.by_name.values().cloned().collect();
  if by_ns != list {
    let stale: Vec<_> = by_ns.difference(&list).collect();
    let missing: Vec<_> = list.difference(&by_ns).collect();
    let site = if !stale.is_empty() { "namespace-index-stale-entry" } else { "namespace-index-missing-entry" };
    return Err((site.into(), format!("namespace index differs from the list: stale {:?}, missing {:?}", stale, missing)));
  }
  if by_name != list {
    let stale: Vec<_> = by_name.difference(&list).collect();
    let missing: Vec<_> = list.difference(&by_name).collect();
    let site = if !stale.is_empty() { "name-index-stale-entry" } else { "name-index-missing-entry" };
    return Err((site.into(), format!("name index differs from the list: stale {:?}, missing {:?}", stale, missing)));
  }
  for e in &sn.evaluators {
    if !seen_name.contains(e) {
      return Err(("evaluator-without-model".into(), format!("an evaluator is deployed under name {} which no stored model has", e)));
    }
  }
  Ok(())
}

/// Is `after` an allowed result of `remove(ns, name)` applied to `before`? (sub-sequence of `before`
/// that keeps every element matching neither key and drops every element matching both)
pub fn remove_allows(before: &[Elem], after: &[Elem], ns: &str, name: &str) -> Result<bool, String> {
  // after must be a sub-sequence of before
  let mut it = before.iter();
  for a in after {
    if !it.any(|b| b == a) {
      return Err(format!("{:?} is not a sub-sequence of {:?}", pairs(after), pairs(before)));
    }
  }
  for b in before {
    let m_ns = b.ns == ns;
    let m_name = b.name == name;
    let kept = after.contains(b);
    if m_ns && m_name && kept {
      return Err(format!("the model ({}, {}) matching both keys is still stored", b.ns, b.name));
    }
    if !m_ns && !m_name && !kept {
      return Err(format!("the model ({}, {}) matching neither key was removed", b.ns, b.name));
    }
  }
  Ok(before.len() != after.len())
}

/// Applies the observed (ns, name) list to the reference elements of `before` (+ optionally a new one).
fn project(before: &[Elem], observed: &[(String, String)], extra: Option<&Elem>) -> Option<Vec<Elem>> {
  let mut out = vec![];
  for (ns, name) in observed {
    if let Some(e) = before.iter().find(|e| &e.ns == ns && &e.name == name) {
      out.push(e.clone());
    } else if let Some(e) = extra.filter(|e| &e.ns == ns && &e.name == name) {
      out.push(e.clone());
    } else {
      return None;
    }
  }
  Some(out)
}

struct Run<'a> {
  s: &'a Setup,
  ws: Workspace,
  st: RefState,
  c: Counters,
  h: Hasher,
  tail: Vec<String>,
  dir_serial: u64,
  /// Facts about texts that are not alphabet members (truncated files that still parse).
  dyn_builds: BTreeMap<String, bool>,
  dyn_value_d: BTreeMap<String, String>,
}

fn viol(rule: &str, site: &str, idx: u64, expected: String, observed: String) -> Violation {
  Violation::new(rule, format!("C17:{}:{}", rule, site), idx, expected, observed)
}

impl<'a> Run<'a> {
  fn builds(&self, key: &str) -> bool {
    self.dyn_builds.get(key).or_else(|| self.s.facts.builds.get(key)).copied().unwrap_or(false)
  }
  fn value_d(&self, key: &str) -> Option<String> {
    self.dyn_value_d.get(key).or_else(|| self.s.facts.value_d.get(key)).cloned()
  }
  fn log(&mut self, line: String) {
    self.h.str(&line);
    self.tail.push(line);
    if self.tail.len() > 40 {
      self.tail.remove(0);
    }
  }

  fn snapshot_checked(&mut self, idx: u64, op: &str) -> Result<VerifSnapshot, Violation> {
    let sn = self.ws.verif_snapshot();
    self.log(format!("  state {:?} | ns-index {:?} | name-index {:?} | evaluators {:?}", sn.definitions, sn.by_namespace.keys().collect::<Vec<_>>(), sn.by_name.keys().collect::<Vec<_>>(), sn.evaluators));
    if let Err((site, text)) = check_invariants(&sn) {
      return Err(viol("index-invariant", &format!("{}:after-{}", site, op), idx, "list, namespace index and name index describe the same set; evaluators only for stored names".into(), text));
    }
    Ok(sn)
  }

  fn expect_deployed_unchanged_or_cleared(&mut self, sn: &VerifSnapshot, idx: u64, op: &str, must_clear: bool, may_clear: bool) -> Result<(), Violation> {
    let observed: BTreeSet<String> = sn.evaluators.clone();
    let before: BTreeSet<String> = self.st.deployed.keys().cloned().collect();
    if must_clear {
      if !observed.is_empty() {
        return Err(viol("evaluators-after-mutation", op, idx, "no evaluator survives a modification of the stored models".into(), format!("evaluators {:?}", observed)));
      }
      self.st.deployed.clear();
    } else if observed == before {
      // unchanged
    } else if may_clear && observed.is_empty() {
      self.st.deployed.clear();
    } else {
      return Err(viol("evaluators-changed-without-mutation", op, idx, format!("evaluators stay {:?}", before), format!("evaluators {:?}", observed)));
    }
    Ok(())
  }

  fn op_add(&mut self, idx: u64, key: &str, as_replace_second_half: bool) -> Result<(), Violation> {
    let _ = as_replace_second_half;
    let m = by_key(&self.s.models, key).unwrap();
    let elem = match elem_of(self.s, key) {
      Some(e) => e,
      None => return Ok(()), // does not parse on this tree: nothing to add through the API
    };
    let defs = match dmntk_model::parse(&m.xml) {
      Ok(d) => d,
      Err(_) => return Ok(()),
    };
    let clash_ns = self.st.stored.iter().any(|e| e.ns == elem.ns);
    let clash_name = self.st.stored.iter().any(|e| e.name == elem.name);
    let result = self.ws.add(defs);
    self.log(format!("add {} -> {}", key, if result.is_ok() { "ok".to_string() } else { format!("err {}", result.as_ref().err().unwrap()) }));
    let sn = self.snapshot_checked(idx, "add")?;
    let before_pairs = pairs(&self.st.stored);
    match (&result, clash_ns || clash_name) {
      (Ok(()), false) => {
        self.c.inc("add.accepted");
        let mut want = before_pairs.clone();
        want.push((elem.ns.clone(), elem.name.clone()));
        if sn.definitions != want {
          return Err(viol("add-result", "accepted-but-list-wrong", idx, format!("stored list {:?}", want), format!("stored list {:?}", sn.definitions)));
        }
        self.st.stored.push(elem);
        self.expect_deployed_unchanged_or_cleared(&sn, idx, "add", true, true)?;
      }
      (Err(_), true) => {
        self.c.inc("add.rejected");
        if clash_ns && !clash_name {
          self.c.inc("add.rejected.namespace_only_clash");
        }
        if clash_name && !clash_ns {
          self.c.inc("add.rejected.name_only_clash");
        }
        if sn.definitions != before_pairs {
          return Err(viol("add-result", "rejected-but-list-changed", idx, format!("stored list {:?}", before_pairs), format!("stored list {:?}", sn.definitions)));
        }
        self.expect_deployed_unchanged_or_cleared(&sn, idx, "rejected-add", false, false)?;
      }
      (Err(e), false) => {
        return Err(viol(
          "add-iff-free",
          "rejected-though-free",
          idx,
          format!("add of ({}, {}) succeeds: no stored model has its namespace or name; stored {:?}", elem.ns, elem.name, before_pairs),
          format!("rejected: {}", e),
        ));
      }
      (Ok(()), true) => {
        let site = if clash_ns && clash_name { "accepted-though-both-clash" } else if clash_ns { "accepted-though-namespace-clash" } else { "accepted-though-name-clash" };
        return Err(viol(
          "add-iff-free",
          site,
          idx,
          format!("add of ({}, {}) is rejected: stored {:?}", elem.ns, elem.name, before_pairs),
          format!("accepted; stored list now {:?}", sn.definitions),
        ));
      }
    }
    Ok(())
  }

  fn op_remove(&mut self, idx: u64, ns: &str, name: &str, label: &str) -> Result<(), Violation> {
    self.ws.remove(ns, name);
    self.log(format!("remove {} ({}, {})", label, ns, name));
    let sn = self.snapshot_checked(idx, "remove")?;
    let after = match project(&self.st.stored, &sn.definitions, None) {
      Some(a) => a,
      None => {
        return Err(viol("remove-result", "unknown-model-appeared", idx, format!("a subset of {:?}", pairs(&self.st.stored)), format!("{:?}", sn.definitions)));
      }
    };
    let partial = self.st.stored.iter().any(|e| (e.ns == ns) != (e.name == name));
    if partial {
      self.c.inc("remove.with_partial_match");
    }
    match remove_allows(&self.st.stored, &after, ns, name) {
      Ok(removed_any) => {
        if removed_any {
          self.c.inc("remove.removed");
        } else {
          self.c.inc("remove.noop");
        }
        self.st.stored = after;
        self.expect_deployed_unchanged_or_cleared(&sn, idx, "remove", removed_any, true)?;
        Ok(())
      }
      Err(text) => Err(viol("remove-result", "wrong-elements-removed", idx, format!("remove({}, {}) removes the model with both keys and keeps those with neither", ns, name), text)),
    }
  }

  fn op_replace(&mut self, idx: u64, key: &str) -> Result<(), Violation> {
    let m = by_key(&self.s.models, key).unwrap();
    let elem = match elem_of(self.s, key) {
      Some(e) => e,
      None => return Ok(()),
    };
    let defs = match dmntk_model::parse(&m.xml) {
      Ok(d) => d,
      Err(_) => return Ok(()),
    };
    let result = self.ws.replace(defs);
    self.log(format!("replace {} -> {}", key, if result.is_ok() { "ok".to_string() } else { format!("err {}", result.as_ref().err().unwrap()) }));
    let sn = self.snapshot_checked(idx, "replace")?;
    let before = self.st.stored.clone();
    let had_exact = before.iter().any(|e| e.ns == elem.ns && e.name == elem.name);
    // relation: exists S1 allowed by remove(m.ns, m.name) such that add(m) on S1 gives the observation
    match &result {
      Ok(()) => {
        self.c.inc("replace.accepted");
        if had_exact {
          self.c.inc("replace.substituted_existing");
        }
        if sn.definitions.last() != Some(&(elem.ns.clone(), elem.name.clone())) {
          return Err(viol("replace-result", "accepted-but-model-not-stored", idx, format!("({}, {}) stored as the newest model", elem.ns, elem.name), format!("{:?}", sn.definitions)));
        }
        let s1_pairs = &sn.definitions[..sn.definitions.len() - 1];
        let s1 = match project(&before, s1_pairs, None) {
          Some(x) => x,
          None => return Err(viol("replace-result", "unknown-model-appeared", idx, format!("a subset of {:?} plus the new model", pairs(&before)), format!("{:?}", sn.definitions))),
        };
        if let Err(text) = remove_allows(&before, &s1, &elem.ns, &elem.name) {
          return Err(viol("replace-result", "wrong-elements-removed", idx, "replace = remove(namespace, name) then add".into(), text));
        }
        if s1.iter().any(|e| e.ns == elem.ns || e.name == elem.name) {
          return Err(viol("add-iff-free", "replace-accepted-though-clash", idx, "the add half of replace is rejected when a remaining model has the namespace or the name".into(), format!("{:?}", sn.definitions)));
        }
        let mut st = s1;
        st.push(elem);
        self.st.stored = st;
        self.expect_deployed_unchanged_or_cleared(&sn, idx, "replace", true, true)?;
      }
      Err(e) => {
        self.c.inc("replace.rejected");
        let s1 = match project(&before, &sn.definitions, None) {
          Some(x) => x,
          None => return Err(viol("replace-result", "unknown-model-appeared", idx, format!("a subset of {:?}", pairs(&before)), format!("{:?}", sn.definitions))),
        };
        let removed_any = match remove_allows(&before, &s1, &elem.ns, &elem.name) {
          Ok(r) => r,
          Err(text) => return Err(viol("replace-result", "wrong-elements-removed", idx, "replace = remove(namespace, name) then add".into(), text)),
        };
        if !s1.iter().any(|x| x.ns == elem.ns || x.name == elem.name) {
          return Err(viol(
            "add-iff-free",
            "replace-rejected-though-free",
            idx,
            format!("replace of ({}, {}) succeeds: after its removal step no stored model has the namespace or the name; stored {:?}", elem.ns, elem.name, pairs(&s1)),
            format!("rejected: {}", e),
          ));
        }
        self.st.stored = s1;
        self.expect_deployed_unchanged_or_cleared(&sn, idx, "replace", removed_any, true)?;
      }
    }
    Ok(())
  }

  fn op_clear(&mut self, idx: u64) -> Result<(), Violation> {
    self.ws.clear();
    self.log("clear".to_string());
    let sn = self.snapshot_checked(idx, "clear")?;
    if !sn.definitions.is_empty() {
      return Err(viol("clear-result", "models-survive-clear", idx, "no stored model".into(), format!("{:?}", sn.definitions)));
    }
    self.st.stored.clear();
    if !sn.evaluators.is_empty() {
      return Err(viol("evaluators-after-mutation", "clear", idx, "no evaluator".into(), format!("{:?}", sn.evaluators)));
    }
    self.st.deployed.clear();
    Ok(())
  }

  fn op_deploy(&mut self, idx: u64) -> Result<(), Violation> {
    let result = self.ws.deploy();
    self.log(format!("deploy -> {}", if result.is_ok() { "ok" } else { "err" }));
    let sn = self.snapshot_checked(idx, "deploy")?;
    if sn.definitions != pairs(&self.st.stored) {
      return Err(viol("deploy-result", "deploy-changed-models", idx, format!("{:?}", pairs(&self.st.stored)), format!("{:?}", sn.definitions)));
    }
    let mut want: BTreeMap<String, String> = BTreeMap::new();
    let mut any_failing = false;
    for e in &self.st.stored {
      if self.builds(&e.key) {
        want.insert(e.name.clone(), e.key.clone());
      } else {
        any_failing = true;
      }
    }
    if any_failing && want.len() > 0 {
      self.c.inc("deploy.with_failing_model_among_others");
    }
    let want_names: BTreeSet<String> = want.keys().cloned().collect();
    if sn.evaluators != want_names {
      let site = if sn.evaluators.len() < want_names.len() { "building-model-not-deployed" } else { "unexpected-evaluator" };
      return Err(viol("deploy-result", site, idx, format!("evaluators exactly for the stored models that build: {:?}", want_names), format!("{:?}", sn.evaluators)));
    }
    self.c.inc("deploy");
    self.st.deployed = want;
    Ok(())
  }

  fn op_eval(&mut self, idx: u64, model_key: &str, invocable: &str) -> Result<(), Violation> {
    let name = by_key(&self.s.models, model_key).unwrap().name;
    let result = self.ws.evaluate_invocable(name, invocable, &FeelContext::default());
    let text = match &result {
      Ok(v) => format!("ok {}", v),
      Err(e) => format!("err {}", e),
    };
    self.log(format!("eval {}/{} -> {}", name, invocable, text));
    let sn = self.snapshot_checked(idx, "eval")?;
    if sn.definitions != pairs(&self.st.stored) {
      return Err(viol("eval-result", "evaluation-changed-models", idx, format!("{:?}", pairs(&self.st.stored)), format!("{:?}", sn.definitions)));
    }
    self.expect_deployed_unchanged_or_cleared(&sn, idx, "eval", false, false)?;
    match (self.st.deployed.get(name), &result) {
      (Some(key), Ok(v)) => {
        self.c.inc("eval.deployed");
        if invocable == "d" {
          let want = self.value_d(key).unwrap_or_default();
          if v.to_string() != want {
            return Err(viol(
              "eval-result",
              "value-of-another-version",
              idx,
              format!("the constant of the deployed text {}: {}", key, want),
              format!("{}", v),
            ));
          }
        }
        Ok(())
      }
      (None, Err(_)) => {
        self.c.inc("eval.not_deployed");
        Ok(())
      }
      (Some(key), Err(e)) => Err(viol("eval-result", "deployed-model-not-evaluable", idx, format!("model {} (text {}) was deployed and not modified since: evaluation possible", name, key), format!("{}", e))),
      (None, Ok(v)) => Err(viol("eval-result", "evaluable-though-not-deployed", idx, format!("model {} is not deployed (stashing or never deployed): an error", name), format!("{}", v))),
    }
  }

  fn op_restart(&mut self, idx: u64, files: &[Value]) -> Result<(), Violation> {
    self.dir_serial += 1;
    let dir = scratch_dir().join(format!("c17-{}-{}", std::process::id(), self.dir_serial));
    let _ = std::fs::remove_dir_all(&dir);
    if std::fs::create_dir_all(&dir).is_err() {
      return Ok(());
    }
    // loadable = regular file, name ends with .dmn, valid UTF-8, parses
    let mut loadable: Vec<Elem> = vec![];
    let mut desc = vec![];
    for (n, f) in files.iter().enumerate() {
      let key = pstr(f, "m");
      let fault = pstr(f, "fault");
      let m = match by_key(&self.s.models, key) {
        Some(m) => m,
        None => continue,
      };
      let mut bytes = m.xml.clone().into_bytes();
      let mut file_name = format!("{}_{}.dmn", n, key);
      let mut path = dir.clone();
      let mut is_loadable = *self.s.facts.parses.get(key).unwrap_or(&false);
      let mut elem_override: Option<Elem> = None;
      match fault {
        "truncated" => {
          let cut = (pu64(f, "at") as usize) % bytes.len().max(1);
          bytes.truncate(cut);
          // a truncated text that still parses is a text of its own: establish its facts alone
          is_loadable = false;
          if let Some(defs) = std::str::from_utf8(&bytes).ok().and_then(|t| dmntk_model::parse(t).ok()) {
            use dmntk_model::model::NamedElement;
            is_loadable = true;
            self.c.inc("fault.restart.truncated_file_still_parses");
            let dyn_key = format!("{}@{}", canonical_key(key), cut);
            match dmntk_model_evaluator::ModelEvaluator::new(&defs) {
              Ok(me) => {
                self.dyn_builds.insert(dyn_key.clone(), true);
                self.dyn_value_d.insert(dyn_key.clone(), me.evaluate_invocable("d", &FeelContext::default()).to_string());
              }
              Err(_) => {
                self.dyn_builds.insert(dyn_key.clone(), false);
              }
            }
            elem_override = Some(Elem {
              ns: defs.namespace().to_string(),
              name: defs.name().to_string(),
              key: dyn_key,
            });
          }
          self.c.inc("fault.restart.truncated_file");
        }
        "empty" => {
          bytes.clear();
          is_loadable = false;
          self.c.inc("fault.restart.empty_file");
        }
        "nonutf8" => {
          let at = (pu64(f, "at") as usize) % bytes.len().max(1);
          bytes[at] = 0xff;
          is_loadable = false;
          self.c.inc("fault.restart.non_utf8_file");
        }
        "notdmn" => {
          file_name = format!("{}_{}.xml", n, key);
          is_loadable = false;
          self.c.inc("fault.restart.not_dmn_extension");
        }
        "subdir" => {
          // a directory whose own name ends with .dmn, the file lives inside it
          path = dir.join(format!("{}_dir.dmn", n));
          let _ = std::fs::create_dir_all(&path);
          self.c.inc("fault.restart.directory_named_dmn");
        }
        _ => {}
      }
      let _ = std::fs::write(path.join(&file_name), &bytes);
      desc.push(format!("{}:{}", key, if fault.is_empty() { "intact" } else { fault }));
      if is_loadable {
        if let Some(e) = elem_override.or_else(|| elem_of(self.s, key)) {
          loadable.push(e);
        }
      }
    }
    self.ws = Workspace::new(Some(dir.clone()));
    let _ = std::fs::remove_dir_all(&dir);
    self.log(format!("restart [{}]", desc.join(", ")));
    self.c.inc("restart");
    let sn = self.snapshot_checked(idx, "restart")?;
    // which text is behind each stored pair: ask the deployed evaluator
    let mut observed: Vec<Elem> = vec![];
    for (ns, name) in &sn.definitions {
      let candidates: Vec<&Elem> = loadable.iter().filter(|e| &e.ns == ns && &e.name == name).collect();
      if candidates.is_empty() {
        return Err(viol("restart-result", "model-from-nowhere", idx, format!("only models of the loadable files {:?}", pairs(&loadable)), format!("{:?}", sn.definitions)));
      }
      let mut chosen = candidates[0].clone();
      let distinct: BTreeSet<&str> = candidates.iter().map(|e| e.key.as_str()).collect();
      if distinct.len() > 1 {
        match self.ws.evaluate_invocable(name, "d", &FeelContext::default()) {
          Ok(v) => {
            let text = v.to_string();
            if let Some(c) = candidates.iter().find(|c| self.builds(&c.key) && self.value_d(&c.key).as_ref() == Some(&text)) {
              chosen = (*c).clone();
            } else {
              return Err(viol("restart-result", "value-of-no-loaded-text", idx, format!("the value of decision d of one of the texts {:?}", distinct), text));
            }
          }
          Err(_) => {
            // no evaluator under this name: the stored text is one that does not build (if there is one)
            if let Some(c) = candidates.iter().find(|c| !self.builds(&c.key)) {
              chosen = (*c).clone();
            }
          }
        }
      }
      observed.push(chosen);
    }
    // some order of adding the loadable files must give exactly this list
    let n = loadable.len();
    let mut perm: Vec<usize> = (0..n).collect();
    let mut found = false;
    let mut orders_tried = 0;
    permute(&mut perm, 0, &mut |p: &[usize]| {
      if found {
        return;
      }
      orders_tried += 1;
      let mut st: Vec<Elem> = vec![];
      for i in p {
        let e = &loadable[*i];
        if !st.iter().any(|x| x.ns == e.ns || x.name == e.name) {
          st.push(e.clone());
        }
      }
      if st == observed {
        found = true;
      }
    });
    if !found {
      return Err(viol(
        "restart-result",
        "no-load-order-explains-state",
        idx,
        format!("the result of adding the loadable files {:?} in some order", loadable.iter().map(|e| e.key.as_str()).collect::<Vec<_>>()),
        format!("{:?}", observed.iter().map(|e| e.key.as_str()).collect::<Vec<_>>()),
      ));
    }
    self.st.stored = observed;
    // the directory load deploys
    let mut want: BTreeMap<String, String> = BTreeMap::new();
    for e in &self.st.stored {
      if self.builds(&e.key) {
        want.insert(e.name.clone(), e.key.clone());
      }
    }
    let want_names: BTreeSet<String> = want.keys().cloned().collect();
    if sn.evaluators != want_names {
      return Err(viol("restart-result", "loaded-models-not-deployed", idx, format!("evaluators {:?}", want_names), format!("{:?}", sn.evaluators)));
    }
    self.st.deployed = want;
    Ok(())
  }
}

fn permute(items: &mut Vec<usize>, k: usize, f: &mut dyn FnMut(&[usize])) {
  if k == items.len() {
    f(items);
    return;
  }
  for i in k..items.len() {
    items.swap(k, i);
    permute(items, k + 1, f);
    items.swap(k, i);
  }
}

/// Executes a list of operations against a fresh workspace. Used by C17 and (for its sequential
/// reference runs) by the service simulation.
pub fn run_history(ops: &[Value]) -> Outcome {
  let s = setup();
  let mut out = Outcome::default();
  let mut run = Run {
    s,
    ws: Workspace::new(None),
    st: RefState::default(),
    c: Counters::default(),
    h: Hasher::default(),
    tail: vec![],
    dir_serial: 0,
    dyn_builds: BTreeMap::new(),
    dyn_value_d: BTreeMap::new(),
  };
  run.c.inc(&format!("len.{:02}", ops.len()));
  for (i, op) in ops.iter().enumerate() {
    let idx = i as u64;
    let kind = pstr(op, "op").to_string();
    run.c.inc(&format!("op.{}", kind));
    let result = catch_unwind(AssertUnwindSafe(|| match kind.as_str() {
      "add" => run.op_add(idx, pstr(op, "m"), false),
      "replace" => run.op_replace(idx, pstr(op, "m")),
      "remove" => {
        let x = pstr(op, "ns");
        let y = pstr(op, "name");
        let ns = by_key(&s.models, x).map(|m| m.namespace).unwrap_or("urn:none");
        let name = by_key(&s.models, y).map(|m| m.name).unwrap_or("none");
        run.op_remove(idx, ns, name, &format!("ns({}),name({})", x, y))
      }
      "bulk" => {
        // many disjoint models at once (whatever the workspace does beyond some number of stored models)
        let n = (pu64(op, "n") as usize).min(BULK_MODELS);
        let mut r = Ok(());
        for i in 0..n {
          r = run.op_add(idx, &format!("X{:02}", i), false);
          if r.is_err() {
            break;
          }
        }
        r
      }
      "clear" => run.op_clear(idx),
      "deploy" => run.op_deploy(idx),
      "eval" => run.op_eval(idx, pstr(op, "m"), if pstr(op, "inv").is_empty() { "d" } else { pstr(op, "inv") }),
      "restart" => run.op_restart(idx, parr(op, "files")),
      _ => Ok(()),
    }));
    match result {
      Ok(Ok(())) => {}
      Ok(Err(v)) => {
        out.violation = Some(v);
        break;
      }
      Err(_) => {
        let record = take_last_panic();
        out.violation = Some(viol("panic", &format!("{}:{}", kind, panic_site(&record)), idx, "workspace operations return".into(), format!("panic at {}", record)));
        break;
      }
    }
  }
  out.counters = run.c;
  out.log_hash = run.h.finish();
  out.log_tail = run.tail;
  out
}

const OPS: [&str; 7] = ["add", "replace", "remove", "clear", "deploy", "eval", "restart"];

/// Models of the enumerated short histories: identical keys (A1/A2), shared namespace only (E with B is
/// not needed here: D shares A's name, E has B's namespace and A's name), one that does not build.
const ENUM_MODELS: [&str; 6] = ["A1", "A2", "B", "D", "E", "F"];

/// The operations of the enumerated part: 6 adds, 6 replaces, 36 removes (every namespace/name pairing),
/// clear, deploy, 6 evaluations = 56.
fn enum_ops() -> Vec<Value> {
  let mut ops = vec![];
  for m in ENUM_MODELS {
    ops.push(json!({"op": "add", "m": m}));
  }
  for m in ENUM_MODELS {
    ops.push(json!({"op": "replace", "m": m}));
  }
  for x in ENUM_MODELS {
    for y in ENUM_MODELS {
      ops.push(json!({"op": "remove", "ns": x, "name": y}));
    }
  }
  ops.push(json!({"op": "clear"}));
  ops.push(json!({"op": "deploy"}));
  for m in ENUM_MODELS {
    ops.push(json!({"op": "eval", "m": m, "inv": "d"}));
  }
  ops
}

/// The operations of the DEEP enumerated part: 17 operations over five models that meet in every way the property
/// names - A1 / A2 identical keys, C shares A's namespace only, D shares A's name only, F does not build: 4 adds,
/// 4 replaces, 5 removes (A's own keys, A's namespace with C's name, D's namespace with A's name, D's namespace with
/// C's name = two partial matches at once, F's keys), clear, deploy, evaluation by A's and by C's name.
fn deep_enum_ops() -> Vec<Value> {
  let mut ops = vec![];
  for m in ["A1", "C", "D", "F"] {
    ops.push(json!({"op": "add", "m": m}));
  }
  for m in ["A2", "C", "D", "F"] {
    ops.push(json!({"op": "replace", "m": m}));
  }
  for (x, y) in [("A1", "A1"), ("A1", "C"), ("D", "A1"), ("D", "C"), ("F", "F")] {
    ops.push(json!({"op": "remove", "ns": x, "name": y}));
  }
  ops.push(json!({"op": "clear"}));
  ops.push(json!({"op": "deploy"}));
  for m in ["A1", "C"] {
    ops.push(json!({"op": "eval", "m": m, "inv": "d"}));
  }
  ops
}

/// Histories of the first enumerated part: all of length 1 and 2 (quick), 1..3 (thorough) over 56 operations.
fn enum_count_wide(tier: Tier) -> u64 {
  let n = enum_ops().len() as u64;
  match tier {
    Tier::Quick => n + n * n,
    Tier::Thorough => n + n * n + n * n * n,
  }
}

/// Longest history of the deep enumerated part: every history of length 3..4 (quick) / 3..5 (thorough) over the 17
/// operations of `deep_enum_ops` (lengths 1 and 2 are covered by the wide part).
fn deep_enum_lengths(tier: Tier) -> std::ops::RangeInclusive<u32> {
  match tier {
    Tier::Quick => 3..=4,
    Tier::Thorough => 3..=5,
  }
}

fn enum_count_deep(tier: Tier) -> u64 {
  let n = deep_enum_ops().len() as u64;
  deep_enum_lengths(tier).map(|l| n.pow(l)).sum()
}

/// Number of enumerated histories of a tier (both parts).
fn enum_count(tier: Tier) -> u64 {
  enum_count_wide(tier) + enum_count_deep(tier)
}

/// The `index`-th history of the deep enumerated part.
fn deep_enum_history(index: u64, tier: Tier) -> Vec<Value> {
  let ops = deep_enum_ops();
  let n = ops.len() as u64;
  let mut first = 0;
  for len in deep_enum_lengths(tier) {
    let count = n.pow(len);
    if index < first + count {
      let mut k = index - first;
      let mut out = vec![Value::Null; len as usize];
      for pos in (0..len as usize).rev() {
        out[pos] = ops[(k % n) as usize].clone();
        k /= n;
      }
      return out;
    }
    first += count;
  }
  vec![]
}

/// The `index`-th enumerated history (lengths in ascending order, lexicographic within a length).
fn enum_history(index: u64) -> Vec<Value> {
  let ops = enum_ops();
  let n = ops.len() as u64;
  let mut len = 1;
  let mut first = 0;
  let mut count = n;
  while index >= first + count {
    first += count;
    count *= n;
    len += 1;
  }
  let mut k = index - first;
  let mut out = vec![Value::Null; len];
  for pos in (0..len).rev() {
    out[pos] = ops[(k % n) as usize].clone();
    k /= n;
  }
  out
}
const RESTART_FAULTS: [&str; 6] = ["", "", "truncated", "empty", "nonutf8", "notdmn"];

pub fn gen_op(rng: &mut Rng, models: &[&str], kinds: &[&str]) -> Value {
  let kind = *rng.pick(kinds);
  match kind {
    "add" => json!({"op": "add", "m": rng.pick(models)}),
    "replace" => json!({"op": "replace", "m": rng.pick(models)}),
    "remove" => {
      let x = *rng.pick(models);
      // mostly the keys of one stored text, often keys of two different ones
      let y = if rng.chance(1, 2) { x } else { *rng.pick(models) };
      json!({"op": "remove", "ns": x, "name": y})
    }
    "clear" => json!({"op": "clear"}),
    "deploy" => json!({"op": "deploy"}),
    "eval" => {
      if rng.chance(1, 12) {
        json!({"op": "eval", "m": rng.pick(models), "inv": "no such invocable"})
      } else {
        json!({"op": "eval", "m": rng.pick(models), "inv": "d"})
      }
    }
    _ => {
      let n = 1 + rng.index(4);
      let mut files = vec![];
      for _ in 0..n {
        let m = *rng.pick(models);
        let mut fault = *rng.pick(&RESTART_FAULTS);
        if rng.chance(1, 10) {
          fault = "subdir";
        }
        files.push(json!({"m": m, "fault": fault, "at": rng.below(100_000)}));
      }
      json!({"op": "restart", "files": files})
    }
  }
}

impl Sim for C17 {
  fn id(&self) -> &'static str {
    "C17"
  }
  fn level(&self) -> &'static str {
    "exploration"
  }
  fn runs(&self, tier: Tier) -> u64 {
    enum_count(tier)
      + match tier {
        Tier::Quick => 300_000,
        Tier::Thorough => 4_000_000,
      }
  }
  fn block(&self, tier: Tier) -> u64 {
    match tier {
      Tier::Quick => 2_500,
      Tier::Thorough => 10_000,
    }
  }
  fn child_setup(&self) {
    let _ = setup();
  }
  fn gen_plan(&self, seed: u64, run: u64, tier: Tier) -> Value {
    // the batch starts with ALL short histories over six representative models, then samples
    if run < enum_count_wide(tier) {
      return json!({"ops": enum_history(run), "class": "enumerated"});
    }
    if run < enum_count(tier) {
      return json!({"ops": deep_enum_history(run - enum_count_wide(tier), tier), "class": "enumerated-deep"});
    }
    let mut rng = Rng::new(derive(seed, "C17", run));
    // swarm: a subset of the alphabet and of the operation kinds per run
    let models: Vec<&str> = rng.subset(&ALPHA_KEYS, 2);
    let mut kinds: Vec<&str> = rng.subset(&OPS, 2);
    if !kinds.iter().any(|k| *k == "add" || *k == "replace" || *k == "restart") {
      kinds.push("add");
    }
    // The generator follows a rough guess of the state (which texts are stored, whether deployed)
    // only to bias the mix towards histories that get somewhere: evaluate after deploy, remove what
    // is stored. The guess has no part in the oracle.
    let keys_of = |k: &str| ALPHA_SPEC.iter().find(|m| m.0 == k).map(|m| (m.1, m.2)).unwrap();
    let len = rng.short_len(1, 12);
    let mut ops = vec![];
    let mut stored: Vec<&str> = vec![];
    let mut deployed = false;
    // one history in twelve starts by storing 9..24 disjoint models
    if rng.chance(1, 12) {
      ops.push(json!({"op": "bulk", "n": 9 + rng.index(16)}));
    }
    let has = |kinds: &Vec<&str>, k: &str| kinds.iter().any(|x| *x == k);
    // what was stored at the last deploy: a text that has gone since then left evaluators behind that must be gone
    // too - a *takeover* stores another text with the name (or the namespace) of such a text
    let mut at_last_deploy: Vec<&str> = vec![];
    for _ in 0..len {
      let gone: Vec<&str> = at_last_deploy.iter().copied().filter(|k| !stored.contains(k)).collect();
      let takeover: Option<Value> = if !gone.is_empty() && (has(&kinds, "add") || has(&kinds, "replace")) && rng.chance(1, 2) {
        let g = *rng.pick(&gone);
        let (gns, gname) = keys_of(g);
        let by_name = rng.chance(2, 3);
        let candidates: Vec<&str> = ALPHA_KEYS.iter().copied().filter(|k| *k != g && if by_name { keys_of(k).1 == gname } else { keys_of(k).0 == gns }).collect();
        if candidates.is_empty() {
          None
        } else {
          Some(json!({"op": if has(&kinds, "add") && (!has(&kinds, "replace") || rng.chance(2, 3)) { "add" } else { "replace" }, "m": *rng.pick(&candidates)}))
        }
      } else {
        None
      };
      let mut op = if let Some(op) = takeover {
        op
      } else if deployed && has(&kinds, "eval") && rng.chance(1, 2) {
        let m = if !stored.is_empty() && rng.chance(4, 5) { *rng.pick(&stored) } else { *rng.pick(&models) };
        json!({"op": "eval", "m": m, "inv": if rng.chance(1, 12) { "no such invocable" } else { "d" }})
      } else if !deployed && !stored.is_empty() && has(&kinds, "deploy") && rng.chance(1, 3) {
        json!({"op": "deploy"})
      } else if !stored.is_empty() && has(&kinds, "remove") && rng.chance(1, 6) {
        // aim at something stored: its own pair, or its namespace with another text's name and vice versa
        let x = *rng.pick(&stored);
        let y = if rng.chance(1, 2) { x } else { *rng.pick(&models) };
        if rng.chance(1, 2) {
          json!({"op": "remove", "ns": x, "name": y})
        } else {
          json!({"op": "remove", "ns": y, "name": x})
        }
      } else {
        gen_op(&mut rng, &models, &kinds)
      };
      // restart is expensive and resets everything: keep it rare unless it is the theme of the run
      if pstr(&op, "op") == "restart" && rng.chance(2, 3) {
        let others: Vec<&str> = kinds.iter().copied().filter(|k| *k != "restart").collect();
        if !others.is_empty() {
          op = gen_op(&mut rng, &models, &others);
        }
      }
      match pstr(&op, "op") {
        "add" => {
          let (ns, name) = keys_of(pstr(&op, "m"));
          if !stored.iter().any(|k| keys_of(k).0 == ns || keys_of(k).1 == name) {
            stored.push(ALPHA_KEYS.iter().find(|k| **k == pstr(&op, "m")).unwrap());
            deployed = false;
          }
        }
        "replace" => {
          let (ns, name) = keys_of(pstr(&op, "m"));
          stored.retain(|k| keys_of(k).0 != ns && keys_of(k).1 != name);
          stored.push(ALPHA_KEYS.iter().find(|k| **k == pstr(&op, "m")).unwrap());
          deployed = false;
        }
        "remove" => {
          let ns = keys_of(pstr(&op, "ns")).0;
          let name = keys_of(pstr(&op, "name")).1;
          stored.retain(|k| keys_of(k).0 != ns && keys_of(k).1 != name);
          deployed = false;
        }
        "clear" => {
          stored.clear();
          deployed = false;
        }
        "deploy" => {
          deployed = true;
          at_last_deploy = stored.clone();
        }
        "restart" => {
          stored.clear();
          for f in parr(&op, "files") {
            if pstr(f, "fault").is_empty() || pstr(f, "fault") == "subdir" {
              let (ns, name) = keys_of(pstr(f, "m"));
              if !stored.iter().any(|k| keys_of(k).0 == ns || keys_of(k).1 == name) {
                stored.push(ALPHA_KEYS.iter().find(|k| **k == pstr(f, "m")).unwrap());
              }
            }
          }
          deployed = true;
          at_last_deploy = stored.clone();
        }
        _ => {}
      }
      ops.push(op);
    }
    json!({"ops": ops})
  }
  fn exec(&self, plan: &Value, _mode: &ExecMode) -> Outcome {
    let ops = parr(plan, "ops");
    let mut out = run_history(ops);
    if pstr(plan, "class") == "enumerated-deep" {
      out.counters.inc("histories.enumerated_deep");
    }
    if pstr(plan, "class") == "enumerated" {
      out.counters.inc("histories.enumerated");
    }
    if ops.len() >= 2 {
      let mut h = Hasher::default();
      h.str(&serde_json::to_string(&plan["ops"]).unwrap_or_default());
      out.distinct_keys.push(h.finish());
    }
    out
  }
  fn shrink(&self, plan: &Value) -> Vec<Value> {
    let mut out = shrink_array(plan, "ops", 1);
    // simplify restart operations: drop files, drop faults
    let ops = parr(plan, "ops");
    for (i, op) in ops.iter().enumerate() {
      if pstr(op, "op") == "restart" {
        let files = parr(op, "files");
        for j in 0..files.len() {
          if files.len() > 1 {
            let mut p = plan.clone();
            p["ops"][i]["files"].as_array_mut().unwrap().remove(j);
            out.push(p);
          }
          if !pstr(&files[j], "fault").is_empty() {
            let mut p = plan.clone();
            p["ops"][i]["files"][j]["fault"] = json!("");
            out.push(p);
          }
        }
      }
    }
    out
  }
  fn rule_text(&self) -> String {
    "the batch starts with every history of length 1..2 (quick) / 1..3 (thorough) over 56 operations on six representative models (all namespace/name pairings of remove), then every history of length 3..4 (quick) / 3..5 (thorough) over 17 operations on five models that meet in every way the property names (identical keys, shared namespace only, shared name only, one that does not build; removes with own keys, with one and with two partial matches); then each run = one seeded history of 1..12 workspace operations (add, replace, remove(ns(x),name(y)) for all pairs x,y, clear, deploy, evaluate, restart from a directory with storage faults) over a per-run subset of a 10-model alphabet whose namespaces and names overlap pairwise; generated from VERIF_SEED by xoshiro256**; distinct = distinct operation sequences (hash of the plan), non-trivial = at least two operations".to_string()
  }
  fn assumptions(&self) -> Vec<String> {
    vec![
      "state is read through the guarded accessor Workspace::verif_snapshot (hook H1), which is trusted to report the three collections faithfully".to_string(),
      "which alphabet models parse and build, and the constant each returns, is established by running the code under test on each model alone; the oracle compares the workspace with that, not with an external truth".to_string(),
      "seeded sampling of histories, not exhaustive enumeration".to_string(),
    ]
  }
  fn real_stub(&self) -> Value {
    json!({"real": ["dmntk-workspace", "dmntk-model (parser)", "dmntk-model-evaluator (deploy)", "evaluation of decisions", "file system (scratch directory written by the simulator)"], "stub": ["directory contents and their faults are produced by the simulator"], "scheduler": "none: single thread, lock shim in pass-through mode"})
  }
  fn expected_probes(&self) -> Vec<&'static str> {
    vec![
      "eval.deployed",
      "remove.with_partial_match",
      "add.rejected.namespace_only_clash",
      "add.rejected.name_only_clash",
      "deploy.with_failing_model_among_others",
      "replace.substituted_existing",
      "fault.restart.truncated_file",
      "fault.restart.non_utf8_file",
      "fault.restart.directory_named_dmn",
    ]
  }
}
