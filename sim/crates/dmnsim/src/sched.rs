//! Recording and replaying wrappers around shuttle's schedulers.
//!
//! Every decision of the wrapped scheduler (which task runs next, every random value) is
//! recorded; the recorded list is the schedule part of a replay file. The replaying scheduler
//! re-executes it and flags a divergence when a recorded task is not runnable - which would mean
//! a source of nondeterminism that is not behind a seam.

use serde_json::{json, Value};
use shuttle::scheduler::{PctScheduler, RandomScheduler, Schedule, Scheduler, Task, TaskId, UrwRandomScheduler};
use std::sync::atomic::{AtomicBool, AtomicU64, Ordering};
use std::sync::{Arc, Mutex};

#[derive(Clone, Debug, PartialEq, Eq)]
pub enum Kind {
  Random,
  Pct(usize),
  Urw,
}

impl Kind {
  pub fn to_json(&self) -> Value {
    match self {
      Kind::Random => json!({"kind": "random"}),
      Kind::Pct(d) => json!({"kind": "pct", "depth": d}),
      Kind::Urw => json!({"kind": "urw"}),
    }
  }
  pub fn from_json(v: &Value) -> Kind {
    match v.get("kind").and_then(|k| k.as_str()).unwrap_or("random") {
      "pct" => Kind::Pct(v.get("depth").and_then(|d| d.as_u64()).unwrap_or(2) as usize),
      "urw" => Kind::Urw,
      _ => Kind::Random,
    }
  }
  pub fn make(&self, seed: u64) -> Box<dyn Scheduler + Send> {
    match self {
      Kind::Random => Box::new(RandomScheduler::new_from_seed(seed, 1)),
      Kind::Pct(depth) => Box::new(PctScheduler::new_from_seed(seed, *depth, 1)),
      Kind::Urw => Box::new(UrwRandomScheduler::new_from_seed(seed, 1)),
    }
  }
}

/// What a recording produced.
#[derive(Clone, Debug, Default)]
pub struct Recording {
  pub steps: Vec<u32>,
  pub randoms: Vec<u64>,
}

impl Recording {
  /// Run-length encoded text: `task*count` joined by commas.
  pub fn to_json(&self) -> Value {
    let mut parts: Vec<String> = vec![];
    let mut i = 0;
    while i < self.steps.len() {
      let t = self.steps[i];
      let mut n = 1;
      while i + n < self.steps.len() && self.steps[i + n] == t {
        n += 1;
      }
      parts.push(if n == 1 { format!("{}", t) } else { format!("{}*{}", t, n) });
      i += n;
    }
    json!({"steps": parts.join(","), "randoms": self.randoms, "length": self.steps.len()})
  }
  pub fn from_json(v: &Value) -> Recording {
    let mut steps = vec![];
    for part in v.get("steps").and_then(|s| s.as_str()).unwrap_or("").split(',') {
      if part.is_empty() {
        continue;
      }
      let mut it = part.split('*');
      let t: u32 = it.next().and_then(|x| x.parse().ok()).unwrap_or(0);
      let n: usize = it.next().and_then(|x| x.parse().ok()).unwrap_or(1);
      for _ in 0..n {
        steps.push(t);
      }
    }
    let randoms = v.get("randoms").and_then(|r| r.as_array()).map(|a| a.iter().filter_map(|x| x.as_u64()).collect()).unwrap_or_default();
    Recording { steps, randoms }
  }
}

/// Shared handle on the recording and statistics of one execution.
#[derive(Clone, Default)]
pub struct Tape {
  pub recording: Arc<Mutex<Recording>>,
  pub switches: Arc<AtomicU64>,
  pub diverged: Arc<AtomicBool>,
}

pub struct Recorder {
  inner: Box<dyn Scheduler + Send>,
  started: bool,
  tape: Tape,
  last: Option<u32>,
}

impl Recorder {
  pub fn new(inner: Box<dyn Scheduler + Send>, tape: Tape) -> Self {
    Self {
      inner,
      started: false,
      tape,
      last: None,
    }
  }
}

impl Scheduler for Recorder {
  fn new_execution(&mut self) -> Option<Schedule> {
    if self.started {
      return None;
    }
    self.started = true;
    self.inner.new_execution()
  }
  fn next_task(&mut self, runnable_tasks: &[&Task], current_task: Option<TaskId>, is_yielding: bool) -> Option<TaskId> {
    let choice = self.inner.next_task(runnable_tasks, current_task, is_yielding);
    if let Some(t) = choice {
      let id = usize::from(t) as u32;
      if let Ok(mut r) = self.tape.recording.lock() {
        r.steps.push(id);
      }
      if self.last.is_some() && self.last != Some(id) {
        self.tape.switches.fetch_add(1, Ordering::Relaxed);
      }
      self.last = Some(id);
    }
    choice
  }
  fn next_u64(&mut self) -> u64 {
    let v = self.inner.next_u64();
    if let Ok(mut r) = self.tape.recording.lock() {
      r.randoms.push(v);
    }
    v
  }
}

pub struct Replayer {
  recording: Recording,
  pos: usize,
  rpos: usize,
  started: bool,
  tape: Tape,
  last: Option<u32>,
}

impl Replayer {
  pub fn new(recording: Recording, tape: Tape) -> Self {
    Self {
      recording,
      pos: 0,
      rpos: 0,
      started: false,
      tape,
      last: None,
    }
  }
}

impl Scheduler for Replayer {
  fn new_execution(&mut self) -> Option<Schedule> {
    if self.started {
      return None;
    }
    self.started = true;
    Some(Schedule::new(0))
  }
  fn next_task(&mut self, runnable_tasks: &[&Task], _current_task: Option<TaskId>, _is_yielding: bool) -> Option<TaskId> {
    let want = self.recording.steps.get(self.pos).copied();
    self.pos += 1;
    let chosen = match want {
      Some(id) if runnable_tasks.iter().any(|t| usize::from(t.id()) as u32 == id) => id,
      _ => {
        // recorded task not runnable, or the recording is exhausted: divergence
        self.tape.diverged.store(true, Ordering::SeqCst);
        usize::from(runnable_tasks[0].id()) as u32
      }
    };
    if let Ok(mut r) = self.tape.recording.lock() {
      r.steps.push(chosen);
    }
    if self.last.is_some() && self.last != Some(chosen) {
      self.tape.switches.fetch_add(1, Ordering::Relaxed);
    }
    self.last = Some(chosen);
    Some(TaskId::from(chosen as usize))
  }
  fn next_u64(&mut self) -> u64 {
    let v = self.recording.randoms.get(self.rpos).copied().unwrap_or_else(|| {
      self.tape.diverged.store(true, Ordering::SeqCst);
      0
    });
    self.rpos += 1;
    if let Ok(mut r) = self.tape.recording.lock() {
      r.randoms.push(v);
    }
    v
  }
}
