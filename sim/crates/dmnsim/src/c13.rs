//! C13 - evaluation is pure: the caller's context is untouched and results are repeatable.
//!
//! One run = one history over long-lived shared objects: several scopes (stacks of contexts binding
//! the same names to different values), several prepared evaluators, decision tables and models,
//! a simulated clock. Operations: parse, evaluate (on its own and on foreign scopes), evaluate a
//! table, evaluate an invocable, move the clock, hand the objects over to another OS thread.
//! Oracle: I1 the scope (and a model's input context) is textually and structurally what it was
//! before every evaluation, I2 a successful parse leaves the parsing scope as it found it, I3 the
//! same evaluator on the same bindings returns the same value wherever in the history, and the
//! value a fresh evaluator on a fresh scope returned before the history began (time-of-day values
//! are compared only under an equal simulated date).

use crate::c20::{data_dir, model_text};
use crate::core::*;
use crate::driver::{panic_site, take_last_panic};
use crate::rng::{derive, Hasher, Rng};
use crate::simrt;
use dmntk_feel::context::FeelContext;
use dmntk_feel::values::Value as FeelValue;
use dmntk_feel::{Evaluator, Scope};
use dmntk_model_evaluator::ModelEvaluator;
use serde_json::{json, Value};
use std::collections::BTreeMap;
use std::panic::{catch_unwind, AssertUnwindSafe};
use std::sync::Arc;

pub struct C13;

// ------------------------------------------------------------------------------------------------
// scopes: the same names bound to different values
// ------------------------------------------------------------------------------------------------

/// Context literals of scope variant `v`: one to three stacked contexts; upper ones shadow lower ones.
fn scope_texts(v: u64, layers: u64) -> Vec<String> {
  let base = format!(
    "{{a: {a}, b: {b}, Order Size: {os}, s: \"{s}\", Customer: \"{c}\", flag: {f}, nothing: null, xs: [{x1}, {x2}, {x3}, {x4}], names: [\"ann\", \"bob{v}\", \"cy\"], people: [{{name: \"ann\", age: {a}}}, {{name: \"bob{v}\", age: {b}}}, {{name: \"cy\", age: 41}}], orders: [{{item: 1, qty: 10}}, {{item: {a}, qty: 20}}, {{item: 3, qty: {b}}}], p: {{name: \"p{v}\", age: {os}, address: {{city: \"c{v}\"}}}}, inc: function(x) x + {a}, r: [{x1}..10], d0: date(\"2021-03-{day}\"), dur: duration(\"P{x1}DT2H\"), nested: [[1, {a}], [3, [4, {b}]], []], long: for i in 1..40 return i * {x1}}}",
    a = 2 + v,
    b = 7 * (v + 1),
    os = 10 + 3 * v,
    s = ["alpha", "be ta", "ga\\\"mma", "delta_9"][(v % 4) as usize],
    c = ["Business", "Private"][(v % 2) as usize],
    f = v % 2 == 0,
    x1 = v + 1,
    x2 = 5,
    x3 = 12 - v as i64,
    x4 = 3 * v,
    day = 10 + v,
    v = v
  );
  let mut out = vec![base];
  if layers >= 2 {
    out.push(format!("{{b: {}, flag: {}, xs: [9, {}, 1]}}", 100 + v, v % 2 == 1, v));
  }
  if layers >= 3 {
    out.push(format!("{{a: {}, extra: \"top{}\"}}", 50 + v, v));
  }
  out
}

fn build_scope(v: u64, layers: u64) -> Option<Scope> {
  let scope = Scope::new();
  for text in scope_texts(v, layers) {
    let ctx = dmntk_feel_evaluator::evaluate_context(&Scope::default(), &text).ok()?;
    scope.push(ctx);
  }
  Some(scope)
}

fn snapshot(scope: &Scope) -> (String, String) {
  (scope.to_string(), format!("{:?}", scope))
}

// ------------------------------------------------------------------------------------------------
// expressions: constructs that push temporary contexts or bracket the parsing scope
// ------------------------------------------------------------------------------------------------

struct Gen<'a> {
  rng: &'a mut Rng,
  clock_bound: bool,
}

impl<'a> Gen<'a> {
  fn num(&mut self, d: u32) -> String {
    let leaf = d == 0 || self.rng.chance(1, 4);
    if leaf {
      return match self.rng.index(9) {
        0 => "a".into(),
        1 => "b".into(),
        2 => "Order Size".into(),
        3 => format!("{}", self.rng.below(20)),
        4 => "p.age".into(),
        5 => "1 / 0".into(),
        6 => "(\"x\" + 1)".into(),
        7 => "unknown thing".into(),
        _ => "count(xs)".into(),
      };
    }
    match self.rng.index(21) {
      16 => {
        if self.rng.chance(1, 2) {
          format!("(function() {})()", self.num(d - 1))
        } else {
          // a context literal with ONE entry, named like an entry of the caller's context
          let k = *self.rng.pick(&["a", "b", "Order Size", "zq"]);
          format!("{{{}: {} + 1}}.{}", k, self.num(d - 1), k)
        }
      }
      17 => format!("{{pi: function() {}, r: pi() + {}}}.r", self.num(d - 1), self.num(d - 1)),
      18 => format!("sum(for i in {} return (function() i + a)())", self.list(d - 1)),
      19 => format!("(function(f) f() + 1)(function() {})", self.num(d - 1)),
      0 => format!("({} + {})", self.num(d - 1), self.num(d - 1)),
      1 => format!("({} * {})", self.num(d - 1), self.num(d - 1)),
      2 => format!("(if {} then {} else {})", self.boolean(d - 1), self.num(d - 1), self.num(d - 1)),
      3 => format!("sum({})", self.list(d - 1)),
      4 => format!("{}[{}]", self.list(d - 1), self.index()),
      5 => format!("inc({})", self.num(d - 1)),
      6 => format!("inc(x: {})", self.num(d - 1)),
      7 => format!("(function(x, y) x * y + {})({}, {})", self.num(d - 1), self.num(d - 1), self.num(d - 1)),
      8 => format!("(function(x, y) x - y)({})", self.num(d - 1)),
      9 => format!("(function(x) x + 1)({}, {})", self.num(d - 1), self.num(d - 1)),
      10 => format!("{{u: {}, v: u + 1, w: {{z: v * 2 + a}}}}.w.z", self.num(d - 1)),
      11 => format!("{{x: {}, f: function(q) q + x}}.f({})", self.num(d - 1), self.num(d - 1)),
      12 => format!("count({})", self.list(d - 1)),
      13 => format!("max({})", self.list(d - 1)),
      14 => format!("string length({})", self.string(d - 1)),
      15 => format!("people[{}].age", self.index()),
      _ => {
        if self.rng.chance(2, 3) {
          self.bif_num(d - 1)
        } else {
          format!("count(orders[item >= {}])", self.num(d - 1))
        }
      }
    }
  }
  fn index(&mut self) -> String {
    match self.rng.index(7) {
      0 => "1".into(),
      1 => "2".into(),
      2 => "0".into(),
      3 => "-1".into(),
      4 => "99".into(),
      5 => "1.5".into(),
      _ => "count(xs) - 1".into(),
    }
  }
  fn boolean(&mut self, d: u32) -> String {
    if d == 0 || self.rng.chance(1, 4) {
      return match self.rng.index(4) {
        0 => "flag".into(),
        1 => "true".into(),
        2 => "a < b".into(),
        _ => "nothing".into(),
      };
    }
    match self.rng.index(11) {
      0 => format!("({} < {})", self.num(d - 1), self.num(d - 1)),
      1 => format!("({} in [1..10])", self.num(d - 1)),
      2 => format!("({} between {} and {})", self.num(d - 1), self.num(d - 1), self.num(d - 1)),
      3 => format!("(some x in {} satisfies x > {})", self.list(d - 1), self.num(d - 1)),
      4 => format!("(every x in {} satisfies x > {})", self.list(d - 1), self.num(d - 1)),
      5 => format!("({} instance of string)", self.string(d - 1)),
      6 => format!("({} and {})", self.boolean(d - 1), self.boolean(d - 1)),
      7 => format!("not({})", self.boolean(d - 1)),
      8 => format!("(some x in {}, y in xs satisfies x = y)", self.list(d - 1)),
      9 => self.temporal_bool(),
      _ => {
        if self.rng.chance(1, 2) {
          self.bif_bool(d - 1)
        } else {
          format!("({} = {})", self.string(d - 1), self.string(d - 1))
        }
      }
    }
  }
  /// A pattern and a flags argument out of small pools: different expressions of one history meet
  /// with the same pattern and different flags, the same leading arguments and different arities.
  fn pattern(&mut self) -> &'static str {
    *self.rng.pick(&["A", "[A-Z]+", "T|L", "a", "E.", "^B"])
  }
  fn flags(&mut self) -> &'static str {
    *self.rng.pick(&["", "", ", \"i\"", ", \"i\"", ", \"s\"", ", \"x\"", ", \"\""])
  }
  fn bif_bool(&mut self, d: u32) -> String {
    if self.rng.chance(1, 3) {
      return self.kinds_bool(d);
    }
    match self.rng.index(8) {
      0 | 1 | 2 => format!("matches({}, \"{}\"{})", self.string(d), self.pattern(), self.flags()),
      3 => format!("matches(input: {}, pattern: \"{}\")", self.string(d), self.pattern()),
      4 => format!("contains({}, \"a\")", self.string(d)),
      5 => format!("starts with({}, \"b\")", self.string(d)),
      6 => format!("list contains({}, {})", self.list(d), self.num(d)),
      _ => format!("(day of week(date(\"2021-03-28\")) = \"Sunday\" and {})", self.boolean(d)),
    }
  }
  fn bif_string(&mut self, d: u32) -> String {
    match self.rng.index(9) {
      0 | 1 | 2 => format!("replace({}, \"{}\", \"-\"{})", self.string(d), self.pattern(), self.flags()),
      3 => format!("substring({}, 2, {})", self.string(d), 1 + self.rng.below(3)),
      4 => format!("substring before({}, \"a\")", self.string(d)),
      5 => format!("substring after({}, \"a\")", self.string(d)),
      6 => format!("lower case({})", self.string(d)),
      7 => format!("string(date(2021, 3, {}) + duration(\"P{}D\"))", 1 + self.rng.below(28), self.rng.below(40)),
      _ => format!("string(decimal({}, {}))", self.num(d), self.rng.below(4)),
    }
  }
  fn bif_list(&mut self, d: u32) -> String {
    if self.rng.chance(1, 3) {
      return self.kinds_list(d);
    }
    match self.rng.index(12) {
      0 | 1 | 2 => format!("split({}, \"{}\")", self.string(d), self.pattern()),
      3 => format!("index of({}, {})", self.list(d), self.num(d)),
      4 => format!("append({}, {})", self.list(d), self.num(d)),
      5 => format!("distinct values({})", self.list(d)),
      6 => format!("reverse({})", self.list(d)),
      7 => format!("sublist({}, 1, {})", self.list(d), 1 + self.rng.below(3)),
      8 => format!("union({}, {})", self.list(d), self.list(d)),
      9 => format!("insert before({}, 1, {})", self.list(d), self.num(d)),
      10 => format!("remove({}, 1)", self.list(d)),
      _ => format!("concatenate({}, {})", self.list(d), self.list(d)),
    }
  }
  /// Productions over the value kinds of the scopes that are not numbers, strings or flat lists: a range,
  /// a date, a duration, nested lists, a list of 40 items.
  /// Built-in functions and forms outside the core lists: contexts as maps, typed parameters, named parameters
  /// of built-ins, `@` literals, type tests, interval functions (some are not implemented: null, every time).
  fn rare_num(&mut self, d: u32) -> String {
    match self.rng.index(8) {
      0 => format!("get value({{k: {}}}, \"k\")", self.num(d)),
      1 => "count(get entries(p))".into(),
      2 => format!("(function(q: number) q + 1)({})", self.num(d)),
      3 => "@\"2021-03-28\".day".into(),
      4 => format!("decimal(n: {}, scale: 2)", self.num(d)),
      5 => "number(\"1.5\", \".\", \",\") + a".into(),
      6 => format!("(function(q: string, w: number) string length(q) + w)(s, {})", self.num(d)),
      _ => "count(get entries({u: a, v: {w: b}}))".into(),
    }
  }
  fn rare_bool(&mut self, d: u32) -> String {
    match self.rng.index(10) {
      0 => format!("is({}, {})", self.num(d), self.num(d)),
      1 => format!("({} instance of number)", self.num(d)),
      2 => "(xs instance of list<number>)".into(),
      3 => "(p instance of context<name: string>)".into(),
      4 => "(inc instance of function<number> -> number)".into(),
      5 => "before(1, 10)".into(),
      6 => "overlaps([1..5], [3..8])".into(),
      7 => "(d0 in [date(\"2021-01-01\")..date(\"2021-12-31\")])".into(),
      8 => format!("({} in (<= 5, > 30))", self.num(d)),
      _ => "(string join(names, \"-\") = null)".into(),
    }
  }
  fn kinds_num(&mut self, d: u32) -> String {
    if self.rng.chance(1, 3) {
      return self.rare_num(d);
    }
    match self.rng.index(8) {
      0 => "count(long)".into(),
      1 => format!("sum(long[item > {}])", 25 + self.rng.below(30)),
      2 => "d0.day".into(),
      3 => "dur.hours + dur.days".into(),
      4 => "nested[2][2][1]".into(),
      5 => format!("count(for i in r return i + {})", self.num(d)),
      6 => "count(flatten(nested))".into(),
      _ => format!("long[{}]", 1 + self.rng.below(45)),
    }
  }
  fn kinds_bool(&mut self, d: u32) -> String {
    if self.rng.chance(1, 3) {
      return self.rare_bool(d);
    }
    match self.rng.index(5) {
      0 => format!("({} in r)", self.num(d)),
      1 => "(d0 < date(\"2021-03-14\"))".into(),
      2 => "(dur > duration(\"P3D\"))".into(),
      3 => format!("(some i in long satisfies i = {})", self.num(d)),
      _ => "(every q in nested satisfies count(q) < 3)".into(),
    }
  }
  fn kinds_list(&mut self, d: u32) -> String {
    match self.rng.index(6) {
      0 => format!("long[item > {}]", 30 + self.rng.below(200)),
      1 => "(for i in r return i * 2)".into(),
      2 => "flatten(nested)".into(),
      3 => format!("(for q in nested return count(q) + {})", self.num(d)),
      4 => "sublist(long, 38)".into(),
      _ => "[d0 + dur, d0 - duration(\"P1D\"), date(d0.year, 1, 1)]".into(),
    }
  }
  fn bif_num(&mut self, d: u32) -> String {
    if self.rng.chance(1, 3) {
      return self.kinds_num(d);
    }
    match self.rng.index(12) {
      0 => format!("min({})", self.list(d)),
      1 => format!("mean({})", self.list(d)),
      2 => format!("abs({})", self.num(d)),
      3 => format!("floor({} / 3)", self.num(d)),
      4 => format!("ceiling({} / 3)", self.num(d)),
      5 => format!("decimal({} / 7, {})", self.num(d), self.rng.below(5)),
      6 => format!("modulo({}, 3)", self.num(d)),
      7 => format!("product({})", self.list(d)),
      8 => format!("median({})", self.list(d)),
      9 => format!("stddev({})", self.list(d)),
      10 => format!("date(\"2021-03-{:02}\").day", 1 + self.rng.below(28)),
      _ => format!("years and months duration(date(\"2020-01-01\"), date(2021, 3, {})).months", 1 + self.rng.below(28)),
    }
  }
  fn temporal_bool(&mut self) -> String {
    // times of day WITHOUT any zone, and times of day that all carry an explicit offset: neither names a zone, so
    // neither is covered by the property's exception - their comparisons, differences and range tests have to be the
    // same on every date (the hours sit around the transitions of the zones the children run in)
    if self.rng.chance(1, 3) {
      return self.zoneless_times();
    }
    match self.rng.index(6) {
      0 => "(date(\"2021-03-28\") < date(\"2021-10-31\"))".into(),
      1 => "(date and time(\"2021-03-28T10:00:00@Europe/Warsaw\") - date and time(\"2021-01-01T10:00:00Z\") = duration(\"P85DT22H\"))".into(),
      2 => "(duration(\"P1D\") < duration(\"PT25H\"))".into(),
      3 => {
        self.clock_bound = true;
        "(time(\"02:30:00@Europe/Warsaw\") = time(\"01:30:00Z\"))".into()
      }
      4 => {
        self.clock_bound = true;
        "(time(\"10:00:00@America/New_York\") = time(\"16:00:00@Europe/Paris\"))".into()
      }
      _ => {
        self.clock_bound = true;
        "(time(\"12:00:00\") = time(\"12:00:00Z\"))".into()
      }
    }
  }
  fn zoneless_times(&mut self) -> String {
    {
      let t = |rng: &mut Rng| format!("{:02}:{}:00", rng.below(4), if rng.chance(1, 2) { "00" } else { "30" });
      let (a, b, c) = (t(self.rng), t(self.rng), t(self.rng));
      match self.rng.index(7) {
        0 => format!("(time(\"{}\") = time(\"{}\"))", a, b),
        1 => format!("(time(\"{}\") < time(\"{}\"))", a, b),
        2 => format!("(time(\"{}\") in [time(\"{}\")..time(\"{}\")])", a, b, c),
        3 => format!("(string(time(\"{}\") - time(\"{}\")) = \"PT1H\")", a, b),
        4 => format!("(time(\"{}+02:00\") = time(\"{}Z\"))", a, b),
        5 => format!("(time(\"{}-05:00\") <= time(\"{}+01:00\"))", a, b),
        _ => format!("(time(\"{}\") between time(\"{}\") and time(\"{}\"))", a, b, c),
      }
    }
  }
  fn list(&mut self, d: u32) -> String {
    if d == 0 || self.rng.chance(1, 4) {
      return match self.rng.index(5) {
        0 => "xs".into(),
        1 => "[1, 2, 3]".into(),
        2 => "[]".into(),
        3 => "people.age".into(),
        _ => "[a, b, Order Size]".into(),
      };
    }
    match self.rng.index(22) {
      // sandwich probes (see `scan_sandwiches`): the same names read before and after an expression in one frame -
      // the caller's, an iteration's, an invocation's, a context literal's, a filter's. The probe is a CONTEXT (an
      // atomic item for every list function, which a list with a marker is not: `union` or `distinct values` may drop
      // an item of it and shift the others)
      17 => format!("[{{swb: [a, b, zq, s], swm: {}, swa: [a, b, zq, s]}}]", self.any(d - 1)),
      18 => format!("(for x in {} return {{swb: [x, a, zq], swm: {}, swa: [x, a, zq]}})", self.list(d - 1), self.any(d - 1)),
      19 => format!("[(function(x, y) {{swb: [x, y, a, q], swm: {}, swa: [x, y, a, q]}})({}, {})]", self.any(d - 1), self.num(d - 1), self.num(d - 1)),
      20 => format!("[{{k: {}, x: k, r: {{swb: [k, x, a, u], swm: {}, swa: [k, x, a, u]}}}}.r]", self.num(d - 1), self.any(d - 1)),
      21 => format!("(for q in people[age > 0] return {{swb: [q.age, a, x], swm: {}, swa: [q.age, a, x]}})", self.any(d - 1)),
      0 => format!("[{}, {}, {}]", self.num(d - 1), self.num(d - 1), self.num(d - 1)),
      1 => format!("(for x in {} return x + {})", self.list(d - 1), self.num(d - 1)),
      2 => format!("(for x in 1..{}, y in {} return x * y)", 1 + self.rng.below(4), self.list(d - 1)),
      3 => format!("(for x in {}..1 return x + a)", 1 + self.rng.below(4)),
      4 => "(for x in [] return x)".into(),
      5 => "(for i in 1..4 return if i = 1 then 1 else i * partial[-1])".into(),
      6 => format!("{}[item > {}]", self.list(d - 1), self.num(d - 1)),
      7 => format!("people[age > {}].age", self.num(d - 1)),
      8 => format!("(for q in people[name = {}] return q.age)", self.string(d - 1)),
      9 => format!("sort({}, function(x, y) x < y)", self.list(d - 1)),
      10 => format!("flatten([{}, {}])", self.list(d - 1), self.list(d - 1)),
      11 => format!("(for x in {}, y in (for z in 1..2 return z + x) return y * {})", self.list(d - 1), self.num(d - 1)),
      12 => format!("{}[item > a and item < {}]", self.list(d - 1), self.num(d - 1)),
      13 => format!("(for x in {} return {{k: x, m: k + 1}}.m)", self.list(d - 1)),
      14 => format!("orders[item > {}].qty", self.num(d - 1)),
      15 => format!("orders[qty > {}].item", self.num(d - 1)),
      _ => {
        if self.rng.chance(2, 3) {
          self.bif_list(d - 1)
        } else {
          format!("(for o in orders[item < {}] return o.item + o.qty)", self.num(d - 1))
        }
      }
    }
  }
  fn string(&mut self, d: u32) -> String {
    if d == 0 || self.rng.chance(1, 3) {
      return match self.rng.index(5) {
        0 => "s".into(),
        1 => "Customer".into(),
        2 => "\"lit\"".into(),
        3 => "p.address.city".into(),
        _ => "names[2]".into(),
      };
    }
    match self.rng.index(6) {
      0 => format!("({} + {})", self.string(d - 1), self.string(d - 1)),
      1 => format!("string({})", self.num(d - 1)),
      2 => format!("upper case({})", self.string(d - 1)),
      3 => format!("substring({}, 2)", self.string(d - 1)),
      4 => format!("(if {} then {} else \"no\")", self.boolean(d - 1), self.string(d - 1)),
      _ => {
        if self.rng.chance(2, 3) {
          self.bif_string(d - 1)
        } else {
          format!("{{t: {}, r: t + \"!\"}}.r", self.string(d - 1))
        }
      }
    }
  }
  fn any(&mut self, d: u32) -> String {
    match self.rng.index(10) {
      0 | 1 => self.num(d),
      2 | 3 => self.list(d),
      4 => self.boolean(d),
      5 => self.string(d),
      6 => {
        if self.rng.chance(1, 3) {
          format!("{{a: {}}}", self.num(d.saturating_sub(1)))
        } else {
          format!("{{r: {}, t: {}, u: [r, t]}}", self.num(d.saturating_sub(1)), self.list(d.saturating_sub(1)))
        }
      }
      7 => format!("function(k) k + {}", self.num(d.saturating_sub(1))),
      8 => format!("function() {}", self.num(d.saturating_sub(1))),
      _ => format!("{{f: function() {}, g: function(u, v) u + v, h: [f, g]}}", self.list(d.saturating_sub(1))),
    }
  }
}

impl<'a> Gen<'a> {
  /// A context literal whose later entries use earlier ones (what the service parses as request body).
  fn context_text(&mut self, d: u32) -> String {
    match self.rng.index(6) {
      4 => format!("{{a: a + {}}}", self.num(d)),
      5 => format!("{{{}: {}}}", *self.rng.pick(&["b", "s", "flag", "xs", "only one"]), self.num(d)),
      0 => format!("{{u: {}, v: u + 1, w: [u, v], Order Size: v * 2}}", self.num(d)),
      1 => format!("{{k: {}, f: function(q) q + k, r: f(k)}}", self.num(d)),
      2 => format!("{{m: {}, n: for x in m return x + a, o: {{p: n, q: count(p)}}}}", self.list(d)),
      _ => format!("{{t: {}, flag: not(flag), s: t + s}}", self.string(d)),
    }
  }
}

/// An expression of the grammar and a context literal binding the names it uses, for simulators that
/// send expressions to the service (the body of `/evaluate` is a FEEL context).
pub fn generated_request_context(seed: u64) -> String {
  let mut rng = Rng::new(seed);
  let v = rng.below(6);
  let depth = 1 + rng.index(3) as u32;
  let mut g = Gen { rng: &mut rng, clock_bound: false };
  let text = g.any(depth);
  let base = scope_texts(v, 1).remove(0);
  // the base is `{...}`: one more entry behind the last one
  format!("{}, zz: {}}}", &base[..base.len() - 1], text)
}

fn pushes_context(text: &str) -> bool {
  text.contains("for ") || text.contains("some ") || text.contains("every ") || text.contains("function") || text.contains('{') || text.contains("[item") || text.contains("[age") || text.contains("[name") || text.contains("[qty") || text.contains("inc(")
}

// ------------------------------------------------------------------------------------------------
// decision tables (recognised from text) and models
// ------------------------------------------------------------------------------------------------

const TABLES: [&str; 3] = [
  r#"
  ┌───┬────────────┬────────────╥──────┐
  │ U │  Customer  │ Order Size ║      │
  ╞═══╪════════════╪════════════╬══════╡
  │ 1 │ "Business" │    <10     ║ 0.10 │
  ├───┼────────────┼────────────╫──────┤
  │ 2 │ "Business" │   >=10     ║ 0.15 │
  ├───┼────────────┼────────────╫──────┤
  │ 3 │ "Private"  │     -      ║ 0.05 │
  └───┴────────────┴────────────╨──────┘
"#,
  r#"
  ┌────┬────────────┬────────────╥───────────┐
  │ C+ │  Customer  │ Order Size ║           │
  ╞════╪════════════╪════════════╬═══════════╡
  │ 1  │     -      │    <100    ║  a + 1    │
  ├────┼────────────┼────────────╫───────────┤
  │ 2  │ "Business" │     -      ║ count(xs) │
  ├────┼────────────┼────────────╫───────────┤
  │ 3  │     -      │   > 11     ║   p.age   │
  └────┴────────────┴────────────╨───────────┘
"#,
  r#"
  ┌───┬────────────┬────────────╥────────────┐
  │ F │    flag    │     a      ║            │
  ╞═══╪════════════╪════════════╬════════════╡
  │ 1 │    true    │    > 3     ║  "t-big"   │
  ├───┼────────────┼────────────╫────────────┤
  │ 2 │    true    │     -      ║ s + "-t"   │
  ├───┼────────────┼────────────╫────────────┤
  │ 3 │     -      │     -      ║ inc(b) + 0 │
  └───┴────────────┴────────────╨────────────┘
"#,
];

/// (model, invocable, input context template; `$X` is replaced by the input variant of the operation)
const MODEL_CALLS: [(&str, &str, &str); 44] = [
  ("gen", "sw1", "{x: $X, s: \"w$X\"}"),
  ("gen", "sw2", "{x: $X, s: \"v$X\"}"),
  ("gen", "sw3", "{x: $X}"),
  ("gen", "sw4", "{x: $X}"),
  ("gen", "sw6", "{x: $X}"),
  ("gen", "sw7", "{x: $X, s: \"ab$X_1\"}"),
  ("gen", "nest", "{p: $X}"),
  ("gen", "defaults", "{}"),
  ("gen", "misc", "{x: $X, s: \"m$X\"}"),
  // an invocation whose callee depends on the input; calls that leave an input or a parameter out
  ("gen", "inv2", "{x: $X}"),
  ("gen", "label", "{n: $X}"),
  ("gen", "label", "{t: \"w$X\"}"),
  ("gen", "c3", "{x: $X}"),
  ("gen", "tu2", "{s: \"u$X\"}"),
  ("gen", "svc", "{x: $X}"),
  ("gen", "rx2", "{x: $X, s: \"ab$X_4\"}"),
  // UNIQUE and ANY tables whose rules overlap for some inputs (null there, a value elsewhere)
  ("gen", "tu2", "{x: $X, s: \"u$X\"}"),
  ("gen", "tany2", "{x: $X, s: \"y$X\"}"),
  ("gen", "tp2", "{x: $X, s: \"p$X\"}"),
  ("gen", "to2", "{x: $X, s: \"o$X\"}"),
  ("gen", "tp", "{x: $X, s: \"p$X\"}"),
  ("gen", "to", "{x: $X, s: \"o$X\"}"),
  ("gen", "tr", "{x: $X, s: \"r$X\"}"),
  ("gen", "tcnt", "{x: $X, s: \"c$X\"}"),
  ("gen", "tmin", "{x: $X, s: \"m$X\"}"),
  ("gen", "tdef", "{x: $X, s: \"d$X\"}"),
  ("gen", "tany", "{x: $X, s: \"a$X\"}"),
  ("gen", "tfirst", "{x: $X, s: \"f$X\"}"),
  ("gen", "c4", "{x: $X, s: \"ab$X_34\"}"),
  ("gen", "svc", "{x: $X, s: \"q$X_2\"}"),
  ("gen", "tbl", "{x: $X, s: \"ab\"}"),
  ("gen", "c3", "{x: $X, s: \"m$X_6\"}"),
  ("gen", "tmp", "{x: $X}"),
  ("gen", "label", "{n: $X, t: \"w$X\"}"),
  ("gen", "rel", "{x: $X, s: \"r$X\"}"),
  ("gen", "lst", "{x: $X, s: \"l$X\"}"),
  ("gen", "inv", "{x: $X, s: \"i$X\"}"),
  ("gen", "fnd", "{x: $X, s: \"f$X\"}"),
  ("compatibility/level_2/2_0001.dmn", "Greeting Message", "{Full Name: \"John Doe $X\"}"),
  ("compatibility/level_2/2_0009.dmn", "MonthlyPayment", "{Loan: {amount: 600000, rate: 0.0375, term: 360}, fee: $X}"),
  ("compatibility/level_3/3_0008.dmn", "listGen2", "{a: \"x$X\", b: \"y\", c: \"z\"}"),
  ("compatibility/level_2/2_0105.dmn", "Decision7", "{}"),
  ("compatibility/level_3/3_0016.dmn", "priceTable2", "{}"),
  ("compatibility/level_3/3_0004.dmn", "Routing", "__lending__"),
];

const INPUT_VARIANTS: [u64; 5] = [3, 7, 12, 31, 40];

fn lending_ctx() -> String {
  // the applicant data of the lending example, read from the workload extracted from the compliance tests
  if let Ok(text) = std::fs::read_to_string(data_dir().join("c20_workload.json")) {
    if let Ok(Value::Array(items)) = serde_json::from_str::<Value>(&text) {
      for it in items {
        if pstr(&it, "model") == "compatibility/level_3/3_0004.dmn" && pstr(&it, "invocable") == "Routing" {
          return pstr(&it, "ctx").to_string();
        }
      }
    }
  }
  "{}".to_string()
}

// ------------------------------------------------------------------------------------------------
// the run
// ------------------------------------------------------------------------------------------------

struct Expr {
  text: String,
  clock_bound: bool,
  home: usize,
  evaluator: Option<Arc<Evaluator>>,
}

fn viol(rule: &str, site: &str, idx: u64, expected: String, observed: String) -> Violation {
  Violation::new(rule, format!("C13:{}:{}", rule, site), idx, expected, observed)
}

/// A short class of an expression for signatures: the outermost context-pushing construct.
fn expr_class(text: &str) -> &'static str {
  let t = text.trim_start_matches('(');
  if t.starts_with("for ") {
    "for"
  } else if t.starts_with("some ") {
    "some"
  } else if t.starts_with("every ") {
    "every"
  } else if t.starts_with("function") {
    "function-definition"
  } else if t.starts_with('{') {
    "context-literal"
  } else if text.contains("[item") || text.contains("[age") || text.contains("[name") || text.contains("[qty") {
    "filter"
  } else if text.contains("inc(") || text.contains("function(") {
    "invocation"
  } else if text.contains("for ") {
    "nested-for"
  } else if text.contains("some ") || text.contains("every ") {
    "nested-quantifier"
  } else if text.contains('{') {
    "nested-context"
  } else {
    "plain"
  }
}

fn value_text(v: &FeelValue) -> String {
  scan_sandwiches(v);
  format!("{:?}", v)
}

/// *Sandwich probes.* A frame that is private to an evaluation (the parameters of an invocation, the entries of a
/// boxed context evaluated so far, an iteration variable) cannot be looked at from outside, so the generated
/// expressions and the simulator's models look at it themselves: a context (literal or boxed) reads the same names `N`
/// in its entries `swb` and `swa`, before and after an expression `E` in the entry between them, all in ONE frame.
/// Evaluating `E` must not alter the context it is evaluated in, so both readings have to be equal wherever they
/// turn up in a result. The first pair that differs is parked here and picked up by the operation that evaluated.
static SANDWICH: std::sync::Mutex<Option<(String, String)>> = std::sync::Mutex::new(None);
static SANDWICHES_SEEN: std::sync::atomic::AtomicU64 = std::sync::atomic::AtomicU64::new(0);

fn scan_sandwiches(v: &FeelValue) {
  fn differ(b: &FeelValue, a: &FeelValue) {
    SANDWICHES_SEEN.fetch_add(1, std::sync::atomic::Ordering::Relaxed);
    let (b, a) = (format!("{:?}", b), format!("{:?}", a));
    if b != a {
      let mut slot = SANDWICH.lock().unwrap_or_else(|e| e.into_inner());
      if slot.is_none() {
        *slot = Some((b, a));
      }
    }
  }
  match v {
    FeelValue::List(items) => {
      items.as_vec().iter().for_each(scan_sandwiches);
    }
    FeelValue::Context(ctx) => {
      if let (Some(b), Some(a)) = (ctx.get_entry(&"swb".into()), ctx.get_entry(&"swa".into())) {
        differ(b, a);
      }
      ctx.get_entries().into_iter().for_each(|(_, value)| scan_sandwiches(value));
    }
    _ => {}
  }
}

fn take_sandwich() -> Option<(String, String)> {
  SANDWICH.lock().unwrap_or_else(|e| e.into_inner()).take()
}

/// Wrapper that lets a closure borrowing `!Sync` objects (a `Scope` holds a `RefCell`) run on another
/// thread. Sound here because the calling thread does nothing but wait for the join: the objects are
/// handed over, never shared.
struct HandedOver<F>(F);
unsafe impl<F> Send for HandedOver<F> {}

/// Runs `f` here or on a freshly started OS thread (hand-over of the long-lived objects).
fn on_thread<R: Send>(handover: bool, f: impl FnOnce() -> R) -> R {
  if !handover {
    return f();
  }
  let boxed = HandedOver(f);
  std::thread::scope(|s| {
    std::thread::Builder::new()
      .stack_size(8 * 1024 * 1024)
      .spawn_scoped(s, move || {
        let b = boxed;
        (b.0)()
      })
      .expect("spawn")
      .join()
      .expect("join")
  })
}

impl C13 {
  fn exec_inner(&self, plan: &Value) -> Outcome {
    let mut out = Outcome::default();
    let mut h = Hasher::default();
    let mut tail: Vec<String> = vec![];
    let mut c = Counters::default();
    let clock0 = pi64(plan, "clock0");
    simrt::clock_set(clock0, 0);
    simrt::clock_reset_reads();
    SANDWICHES_SEEN.store(0, std::sync::atomic::Ordering::Relaxed);
    take_sandwich();
    // ---- the pool
    let scope_specs: Vec<(u64, u64)> = parr(plan, "scopes").iter().map(|s| (pu64(s, "v"), pu64(s, "layers"))).collect();
    let mut scopes: Vec<Scope> = vec![];
    for (v, layers) in &scope_specs {
      match build_scope(*v, *layers) {
        Some(s) => scopes.push(s),
        None => {
          out.harness_error = Some(format!("scope variant {} does not build: the vocabulary of the simulator does not fit this tree", v));
          return out;
        }
      }
    }
    let mut exprs: Vec<Expr> = parr(plan, "exprs")
      .iter()
      .map(|e| Expr {
        text: pstr(e, "text").to_string(),
        clock_bound: pbool(e, "clock_bound"),
        home: (pu64(e, "home") as usize) % scopes.len().max(1),
        evaluator: None,
      })
      .collect();
    // tables: built against scope 0
    let mut tables: Vec<Option<Arc<Evaluator>>> = vec![];
    for t in parr(plan, "tables") {
      let text = TABLES[(t.as_u64().unwrap_or(0) as usize) % TABLES.len()];
      let built = catch_unwind(AssertUnwindSafe(|| {
        let dt = dmntk_recognizer::build(text).ok()?;
        let fresh = build_scope(scope_specs[0].0, scope_specs[0].1)?;
        dmntk_model_evaluator::build_decision_table_evaluator(&fresh, &dt).ok()
      }));
      tables.push(built.ok().flatten().map(Arc::new));
    }
    // models: one long-lived evaluator per model; inputs per (call, input variant)
    let mut models: BTreeMap<String, Arc<ModelEvaluator>> = BTreeMap::new();
    let model_calls: Vec<(String, String, String)> = parr(plan, "models")
      .iter()
      .map(|m| {
        let (model, inv, ctx) = MODEL_CALLS[(m.as_u64().unwrap_or(0) as usize) % MODEL_CALLS.len()];
        (model.to_string(), inv.to_string(), if ctx == "__lending__" { lending_ctx() } else { ctx.to_string() })
      })
      .collect();
    for (model, _, _) in &model_calls {
      if !models.contains_key(model) {
        let built = catch_unwind(AssertUnwindSafe(|| {
          let text = model_text(model)?;
          let defs = dmntk_model::parse(&text).ok()?;
          ModelEvaluator::new(&defs).ok()
        }));
        if let Ok(Some(me)) = built {
          models.insert(model.clone(), me);
        }
      }
    }
    let model_input = |m: usize, x: u64| -> Option<FeelContext> {
      let (_, _, ctx) = &model_calls[m];
      let text = ctx.replace("$X", &INPUT_VARIANTS[(x as usize) % INPUT_VARIANTS.len()].to_string());
      catch_unwind(|| dmntk_feel_evaluator::evaluate_context(&Scope::default(), &text)).ok().and_then(|r| r.ok())
    };
    // history-free baseline of every model call of the plan: a freshly built evaluator, one evaluation
    let mut model_baseline: BTreeMap<(usize, u64), Option<String>> = BTreeMap::new();
    for op in parr(plan, "ops") {
      if pstr(op, "op") == "model" && !model_calls.is_empty() {
        let m = (pu64(op, "m") as usize) % model_calls.len();
        let x = pu64(op, "x") % INPUT_VARIANTS.len() as u64;
        if model_baseline.contains_key(&(m, x)) || !models.contains_key(&model_calls[m].0) {
          continue;
        }
        let (model, inv, _) = model_calls[m].clone();
        let input = model_input(m, x);
        let r = catch_unwind(AssertUnwindSafe(|| {
          let text = model_text(&model)?;
          let defs = dmntk_model::parse(&text).ok()?;
          let fresh = ModelEvaluator::new(&defs).ok()?;
          Some(value_text(&fresh.evaluate_invocable(&inv, input.as_ref()?)))
        }));
        match r {
          Ok(v) => {
            model_baseline.insert((m, x), v);
          }
          Err(_) => {
            let _ = take_last_panic();
            c.inc("crashes_observed.model_baseline");
            model_baseline.insert((m, x), None);
          }
        }
      }
    }
    // ---- history-free baseline: fresh parse, fresh prepare, fresh scope, initial clock
    let mut baseline: BTreeMap<(usize, usize), Option<String>> = BTreeMap::new();
    for op in parr(plan, "ops") {
      if pstr(op, "op") == "eval" {
        let e = (pu64(op, "e") as usize) % exprs.len().max(1);
        let s = (pu64(op, "s") as usize) % scopes.len().max(1);
        if baseline.contains_key(&(e, s)) || exprs.is_empty() {
          continue;
        }
        let text = exprs[e].text.clone();
        let home = exprs[e].home;
        let r = catch_unwind(AssertUnwindSafe(|| {
          let parse_scope = build_scope(scope_specs[home].0, scope_specs[home].1)?;
          let node = dmntk_feel_parser::parse_expression(&parse_scope, &text, false).ok()?;
          let ev = dmntk_feel_evaluator::prepare(&node).ok()?;
          let fresh = build_scope(scope_specs[s].0, scope_specs[s].1)?;
          Some(value_text(&(*ev)(&fresh)))
        }));
        match r {
          Ok(v) => {
            baseline.insert((e, s), v);
          }
          Err(_) => {
            let _ = take_last_panic();
            c.inc("crashes_observed.baseline");
            baseline.insert((e, s), None);
          }
        }
      }
    }
    // ---- the history
    // observed results: (kind, id, scope) -> (value text, clock day at that time)
    let mut seen: BTreeMap<(u8, usize, usize), Vec<(String, i64)>> = BTreeMap::new();
    let mut handover = false;
    // while the clock ticks on every read, a time-of-day value sees several dates inside one evaluation
    let mut ticking = false;
    let mut log = |line: String, h: &mut Hasher, tail: &mut Vec<String>| {
      h.str(&line);
      tail.push(line);
      if tail.len() > 40 {
        tail.remove(0);
      }
    };
    let ops: Vec<Value> = parr(plan, "ops").to_vec();
    for (i, op) in ops.iter().enumerate() {
      let idx = i as u64;
      let kind = pstr(op, "op").to_string();
      c.inc(&format!("op.{}", kind));
      match kind.as_str() {
        "clock" => {
          simrt::clock_set(pi64(op, "days"), pi64(op, "tick"));
          ticking = pi64(op, "tick") != 0;
          c.inc("fault.clock_moved");
          if pi64(op, "tick") != 0 {
            c.inc("fault.clock_ticks_on_every_read");
          }
          log(format!("clock day {} tick {}", pi64(op, "days"), pi64(op, "tick")), &mut h, &mut tail);
        }
        "handover" => {
          handover = true;
          c.inc("fault.handover_to_other_thread");
        }
        "parse" | "eval" if !exprs.is_empty() => {
          let e = (pu64(op, "e") as usize) % exprs.len();
          let s = (pu64(op, "s") as usize) % scopes.len();
          let ho = std::mem::take(&mut handover);
          // (re)parse when asked to, or when the evaluator does not exist yet
          if kind == "parse" || exprs[e].evaluator.is_none() {
            let ps = if kind == "parse" { s } else { exprs[e].home };
            let before = snapshot(&scopes[ps]);
            let text = exprs[e].text.clone();
            let scope_ref = &scopes[ps];
            let parsed = on_thread(ho, || catch_unwind(AssertUnwindSafe(|| dmntk_feel_parser::parse_expression(scope_ref, &text, false).ok().and_then(|n| dmntk_feel_evaluator::prepare(&n).ok()))));
            match parsed {
              Ok(Some(ev)) => {
                let after = snapshot(&scopes[ps]);
                log(format!("parse e{} on s{} ok", e, ps), &mut h, &mut tail);
                if before != after {
                  out.violation = Some(viol(
                    "parse-changed-scope",
                    expr_class(&text),
                    idx,
                    format!("a successful parse of `{}` leaves the parsing scope as it found it: {}", text, before.0),
                    after.0,
                  ));
                  break;
                }
                c.inc("parse.ok");
                if kind == "parse" && exprs[e].evaluator.is_some() {
                  c.inc("parse.reparsed_on_other_scope");
                }
                exprs[e].evaluator = Some(Arc::new(ev));
              }
              Ok(None) => {
                // after a failed parse the property promises nothing: discard and rebuild that scope
                c.inc("parse.failed");
                log(format!("parse e{} on s{} failed", e, ps), &mut h, &mut tail);
                if let Some(fresh) = build_scope(scope_specs[ps].0, scope_specs[ps].1) {
                  scopes[ps] = fresh;
                }
              }
              Err(_) => {
                let _ = take_last_panic();
                c.inc("crashes_observed.parse");
                if let Some(fresh) = build_scope(scope_specs[ps].0, scope_specs[ps].1) {
                  scopes[ps] = fresh;
                }
              }
            }
          }
          if kind == "eval" {
            let ev = match &exprs[e].evaluator {
              Some(ev) => Arc::clone(ev),
              None => continue,
            };
            let before = snapshot(&scopes[s]);
            let day = simrt::clock_days();
            let scope_ref = &scopes[s];
            // a burst: the same evaluation many times before the one that is looked at (whatever happens
            // every N-th evaluation happens inside the history)
            let rep = pu64(op, "rep");
            if rep > 0 {
              c.inc("burst.eval");
              c.add("burst.evaluations", rep);
              let _ = catch_unwind(AssertUnwindSafe(|| (0..rep).for_each(|_| drop((**ev)(scope_ref)))));
            }
            take_sandwich();
            let r = on_thread(ho, || catch_unwind(AssertUnwindSafe(|| value_text(&(**ev)(scope_ref)))));
            let text = exprs[e].text.clone();
            match r {
              Ok(v) => {
                let after = snapshot(&scopes[s]);
                if let Some((b, a)) = take_sandwich() {
                  out.violation = Some(viol(
                    "evaluation-changed-inner-context",
                    expr_class(&text),
                    idx,
                    format!("in `{}` the names read before a sub-expression read the same after it (one frame): {}", text, b),
                    a,
                  ));
                  break;
                }
                log(format!("eval e{} on s{} day {} -> {}", e, s, day, v.chars().take(120).collect::<String>()), &mut h, &mut tail);
                if before != after {
                  out.violation = Some(viol(
                    "evaluation-changed-scope",
                    expr_class(&text),
                    idx,
                    format!("after evaluating `{}` the scope holds what it held before: {}", text, before.0),
                    after.0,
                  ));
                  break;
                }
                c.inc("eval.ok");
                if s != exprs[e].home {
                  c.inc("eval.on_foreign_scope");
                }
                if pushes_context(&text) {
                  out.distinct_keys.push({
                    let mut k = Hasher::default();
                    k.str(&text);
                    k.u64(scope_specs[s].0 * 10 + scope_specs[s].1);
                    k.u64(if i > 0 { 1 } else { 0 });
                    k.finish()
                  });
                }
                // I3: repeatability within the history and against the baseline
                let clock_bound = exprs[e].clock_bound;
                if clock_bound && ticking {
                  c.inc("eval.exempt_time_of_day_under_ticking_clock");
                  continue;
                }
                let list = seen.entry((0, e, s)).or_default();
                for (old, old_day) in list.iter() {
                  if clock_bound && *old_day != day {
                    continue;
                  }
                  if *old != v {
                    out.violation = Some(viol(
                      "value-not-repeatable",
                      expr_class(&text),
                      idx,
                      format!("`{}` on scope {} returns what it returned earlier in this history: {}", text, s, old),
                      v.clone(),
                    ));
                    break;
                  }
                }
                if out.violation.is_some() {
                  break;
                }
                if !list.is_empty() {
                  c.inc("eval.repeated_and_compared");
                }
                list.push((v.clone(), day));
                if let Some(Some(base)) = baseline.get(&(e, s)) {
                  if (!clock_bound || day == clock0) && *base != v {
                    out.violation = Some(viol(
                      "value-differs-from-fresh-evaluator",
                      expr_class(&text),
                      idx,
                      format!("`{}` on scope {} returns what a freshly parsed evaluator on a fresh scope returned before the history: {}", text, s, base),
                      v.clone(),
                    ));
                    break;
                  }
                  c.inc("eval.compared_with_baseline");
                }
              }
              Err(_) => {
                let record = take_last_panic();
                log(format!("eval e{} on s{} PANIC {}", e, s, record), &mut h, &mut tail);
                let earlier_ok = seen.get(&(0, e, s)).map(|l| !l.is_empty()).unwrap_or(false) || matches!(baseline.get(&(e, s)), Some(Some(_)));
                if earlier_ok && !exprs[e].clock_bound {
                  out.violation = Some(viol(
                    "panic-on-repeated-evaluation",
                    &panic_site(&record),
                    idx,
                    format!("`{}` on scope {} returns a value as it did before", text, s),
                    format!("panic at {}", record),
                  ));
                  break;
                }
                c.inc("crashes_observed.first_evaluation");
                if let Some(fresh) = build_scope(scope_specs[s].0, scope_specs[s].1) {
                  scopes[s] = fresh;
                }
              }
            }
          }
        }
        "ctx" if !parr(plan, "ctxs").is_empty() => {
          // a context literal parsed AND evaluated on a long-lived scope, as the service does with request bodies
          let ctxs = parr(plan, "ctxs");
          let ci = (pu64(op, "c") as usize) % ctxs.len();
          let text = pstr(&ctxs[ci], "text").to_string();
          let ctx_clock_bound = pbool(&ctxs[ci], "clock_bound");
          let day = simrt::clock_days();
          let s = (pu64(op, "s") as usize) % scopes.len();
          let ho = std::mem::take(&mut handover);
          let before = snapshot(&scopes[s]);
          let scope_ref = &scopes[s];
          let r = on_thread(ho, || catch_unwind(AssertUnwindSafe(|| dmntk_feel_evaluator::evaluate_context(scope_ref, &text).map(|c| format!("{:?}", c)))));
          match r {
            Ok(Ok(v)) => {
              let after = snapshot(&scopes[s]);
              log(format!("ctx c{} on s{} -> {}", ci, s, v.chars().take(120).collect::<String>()), &mut h, &mut tail);
              if before != after {
                out.violation = Some(viol("context-evaluation-changed-scope", "context-literal", idx, format!("after parsing and evaluating `{}` the scope holds what it held before: {}", text, before.0), after.0));
                break;
              }
              c.inc("ctx.ok");
              if ctx_clock_bound && ticking {
                continue;
              }
              let list = seen.entry((3, ci, s)).or_default();
              if let Some((old, _)) = list.iter().find(|(_, d)| !ctx_clock_bound || *d == day) {
                if *old != v {
                  out.violation = Some(viol("value-not-repeatable", "context-literal-text", idx, format!("`{}` on scope {} gives {}", text, s, old), v.clone()));
                  break;
                }
                c.inc("ctx.repeated_and_compared");
              }
              list.push((v, day));
            }
            Ok(Err(_)) => {
              // a failed parse promises nothing about the scope: rebuild it
              c.inc("ctx.failed");
              if let Some(fresh) = build_scope(scope_specs[s].0, scope_specs[s].1) {
                scopes[s] = fresh;
              }
            }
            Err(_) => {
              let _ = take_last_panic();
              c.inc("crashes_observed.ctx");
              if let Some(fresh) = build_scope(scope_specs[s].0, scope_specs[s].1) {
                scopes[s] = fresh;
              }
            }
          }
        }
        "table" if !tables.is_empty() => {
          let t = (pu64(op, "t") as usize) % tables.len();
          let s = (pu64(op, "s") as usize) % scopes.len();
          let ho = std::mem::take(&mut handover);
          let ev = match &tables[t] {
            Some(ev) => Arc::clone(ev),
            None => continue,
          };
          let before = snapshot(&scopes[s]);
          let scope_ref = &scopes[s];
          let rep = pu64(op, "rep");
          if rep > 0 {
            c.inc("burst.table");
            c.add("burst.evaluations", rep);
            let _ = catch_unwind(AssertUnwindSafe(|| (0..rep).for_each(|_| drop((**ev)(scope_ref)))));
          }
          let r = on_thread(ho, || catch_unwind(AssertUnwindSafe(|| value_text(&(**ev)(scope_ref)))));
          match r {
            Ok(v) => {
              let after = snapshot(&scopes[s]);
              log(format!("table t{} on s{} -> {}", t, s, v.chars().take(120).collect::<String>()), &mut h, &mut tail);
              if before != after {
                out.violation = Some(viol("evaluation-changed-scope", "decision-table", idx, format!("after evaluating table {} the scope holds what it held before: {}", t, before.0), after.0));
                break;
              }
              c.inc("table.ok");
              let list = seen.entry((1, t, s)).or_default();
              if let Some((old, _)) = list.first() {
                if *old != v {
                  out.violation = Some(viol("value-not-repeatable", "decision-table", idx, format!("table {} on scope {} returns {}", t, s, old), v.clone()));
                  break;
                }
                c.inc("table.repeated_and_compared");
              }
              list.push((v, 0));
            }
            Err(_) => {
              let record = take_last_panic();
              if seen.get(&(1, t, s)).map(|l| !l.is_empty()).unwrap_or(false) {
                out.violation = Some(viol("panic-on-repeated-evaluation", &panic_site(&record), idx, format!("table {} on scope {} returns a value as before", t, s), record));
                break;
              }
              c.inc("crashes_observed.table");
              if let Some(fresh) = build_scope(scope_specs[s].0, scope_specs[s].1) {
                scopes[s] = fresh;
              }
            }
          }
        }
        "model" if !model_calls.is_empty() => {
          let m = (pu64(op, "m") as usize) % model_calls.len();
          let x = pu64(op, "x") % INPUT_VARIANTS.len() as u64;
          let ho = std::mem::take(&mut handover);
          let (model, inv, _) = model_calls[m].clone();
          let me = match models.get(&model) {
            Some(me) => Arc::clone(me),
            None => continue,
          };
          let input = match model_input(m, x) {
            Some(i) => i,
            None => continue,
          };
          let before = (input.to_string(), format!("{:?}", input));
          let rep = pu64(op, "rep");
          if rep > 0 {
            c.inc("burst.model");
            c.add("burst.evaluations", rep);
            let _ = catch_unwind(AssertUnwindSafe(|| (0..rep).for_each(|_| drop(me.evaluate_invocable(&inv, &input)))));
          }
          take_sandwich();
          let r = on_thread(ho, || catch_unwind(AssertUnwindSafe(|| value_text(&me.evaluate_invocable(&inv, &input)))));
          let day = simrt::clock_days();
          match r {
            Ok(v) => {
              let after = (input.to_string(), format!("{:?}", input));
              if let Some((b, a)) = take_sandwich() {
                out.violation = Some(viol(
                  "evaluation-changed-inner-context",
                  &format!("model:{}/{}", model, inv),
                  idx,
                  format!("in {}/{} on {} the names read before a nested expression read the same after it (one frame): {}", model, inv, input, b),
                  a,
                ));
                break;
              }
              log(format!("model {}/{} input {} -> {}", model, inv, x, v.chars().take(120).collect::<String>()), &mut h, &mut tail);
              if before != after {
                out.violation = Some(viol("evaluation-changed-input-context", &format!("{}/{}", model, inv), idx, format!("the input context is untouched: {}", before.0), after.0));
                break;
              }
              c.inc("model.ok");
              let list = seen.entry((2, m, x as usize)).or_default();
              if let Some((old, _)) = list.first() {
                if *old != v {
                  out.violation = Some(viol("value-not-repeatable", &format!("model:{}/{}", model, inv), idx, format!("{}/{} on {} returns what it returned earlier in this history: {}", model, inv, input, old), v.clone()));
                  break;
                }
                c.inc("model.repeated_and_compared");
              }
              list.push((v.clone(), day));
              if let Some(Some(base)) = model_baseline.get(&(m, x)) {
                if *base != v {
                  out.violation = Some(viol(
                    "value-differs-from-fresh-evaluator",
                    &format!("model:{}/{}", model, inv),
                    idx,
                    format!("{}/{} on {} returns what a freshly built evaluator returned for the same call: {}", model, inv, input, base),
                    v.clone(),
                  ));
                  break;
                }
                c.inc("model.compared_with_baseline");
              }
            }
            Err(_) => {
              let record = take_last_panic();
              if seen.get(&(2, m, x as usize)).map(|l| !l.is_empty()).unwrap_or(false) || matches!(model_baseline.get(&(m, x)), Some(Some(_))) {
                out.violation = Some(viol("panic-on-repeated-evaluation", &panic_site(&record), idx, format!("{}/{} returns a value as before", model, inv), record));
                break;
              }
              c.inc("crashes_observed.model");
            }
          }
        }
        _ => {}
      }
    }
    c.add("clock.reads", simrt::clock_reads());
    c.add("sandwich.pairs_compared", SANDWICHES_SEEN.swap(0, std::sync::atomic::Ordering::Relaxed));
    c.inc(&format!("len.{:02}", (ops.len() / 10) * 10));
    out.counters = c;
    out.log_hash = h.finish();
    out.log_tail = tail;
    out.distinct_keys.sort_unstable();
    out.distinct_keys.dedup();
    out
  }
}

const CLOCK_DATES: [(i32, u8, u8); 12] = [
  (2021, 3, 27),
  (2021, 3, 28),
  (2021, 3, 29),
  (2021, 10, 31),
  (2021, 3, 14),
  (2021, 11, 7),
  (2020, 2, 29),
  (2020, 12, 31),
  (2021, 1, 1),
  (2021, 6, 15),
  (1921, 6, 15),
  (2121, 6, 15),
];

impl Sim for C13 {
  fn id(&self) -> &'static str {
    "C13"
  }
  fn level(&self) -> &'static str {
    "exploration"
  }
  fn runs(&self, tier: Tier) -> u64 {
    match tier {
      Tier::Quick => 25_000,
      Tier::Thorough => 1_000_000,
    }
  }
  fn block(&self, tier: Tier) -> u64 {
    match tier {
      Tier::Quick => 250,
      Tier::Thorough => 1_000,
    }
  }
  fn watchdog_ms(&self) -> u64 {
    60_000
  }
  fn tz_of_block(&self, block: u64) -> &'static str {
    crate::TZS[(block % crate::TZS.len() as u64) as usize]
  }
  fn child_setup(&self) {
    simrt::install();
  }
  fn gen_plan(&self, seed: u64, run: u64, _tier: Tier) -> Value {
    let mut rng = Rng::new(derive(seed, "C13", run));
    let n_scopes = 2 + rng.index(3);
    let scopes: Vec<Value> = (0..n_scopes).map(|_| json!({"v": rng.below(6), "layers": 1 + rng.below(3)})).collect();
    let mut n_exprs = 3 + rng.index(6);
    let mut exprs = vec![];
    for _ in 0..n_exprs {
      let depth = 1 + rng.index(3) as u32;
      let mut g = Gen { rng: &mut rng, clock_bound: false };
      let text = g.any(depth);
      let cb = g.clock_bound;
      exprs.push(json!({"text": text, "clock_bound": cb, "home": rng.index(n_scopes)}));
    }
    // siblings: two expressions that differ in an optional argument only (flags, length, scale) or
    // apply the same pattern through different functions - what one leaves behind the other would meet
    if rng.chance(1, 3) {
      let subject = *rng.pick(&["s", "Customer", "names[2]", "p.name", "upper case(s)"]);
      let pattern = *rng.pick(&["A", "[A-Z]+", "T|L", "a", "E.", "^B", "(?i)a"]);
      let (x, y) = match rng.index(12) {
        // a pattern with a flag next to the pattern that ENDS in the flag letter and has no flag: whatever is keyed by
        // the two texts put together cannot tell them apart
        9 | 10 => {
          let f = *rng.pick(&["i", "s"]);
          let p = *rng.pick(&["^b", "a", "T|L"]);
          (format!("matches({}, \"{}\", \"{}\")", subject, p, f), format!("matches({}, \"{}{}\")", subject, p, f))
        }
        11 => {
          let f = *rng.pick(&["i", "s"]);
          let p = *rng.pick(&["^b", "a", "T|L"]);
          (format!("replace({}, \"{}\", \"-\", \"{}\")", subject, p, f), format!("replace({}, \"{}{}\", \"-\")", subject, p, f))
        }
        0 => (format!("matches({}, \"{}\")", subject, pattern), format!("matches({}, \"{}\", \"i\")", subject, pattern)),
        1 => (format!("replace({}, \"{}\", \"-\")", subject, pattern), format!("replace({}, \"{}\", \"-\", \"i\")", subject, pattern)),
        2 => (format!("matches({}, \"{}\", \"i\")", subject, pattern), format!("matches({}, \"{}\", \"x\")", subject, pattern)),
        3 => (format!("split({}, \"{}\")", subject, pattern), format!("replace({}, \"{}\", \"-\", \"i\")", subject, pattern)),
        4 => (format!("replace({}, \"{}\", \"-\", \"i\")", subject, pattern), format!("split({}, \"{}\")", subject, pattern)),
        5 => (format!("substring({}, 2)", subject), format!("substring({}, 2, 1)", subject)),
        6 => ("decimal(a / 7, 2)".to_string(), "decimal(a / 7, 4)".to_string()),
        7 => ("sort(xs, function(x, y) x < y)".to_string(), "sort(xs, function(x, y) x > y)".to_string()),
        _ => ("sublist(xs, 2)".to_string(), "sublist(xs, 2, 1)".to_string()),
      };
      let home = rng.index(n_scopes);
      // in either order, sometimes one of the two only: which of them a process meets first varies from run to run
      let (x, y) = if rng.chance(1, 2) { (y, x) } else { (x, y) };
      exprs.push(json!({"text": x, "clock_bound": false, "home": home, "sib": true}));
      n_exprs += 1;
      if rng.chance(3, 4) {
        exprs.push(json!({"text": y, "clock_bound": false, "home": home, "sib": true}));
        n_exprs += 1;
      }
    }
    // times of day without a zone (or all with explicit offsets) compared, subtracted and tested against ranges: one
    // history in three has such an expression; it is clock-free, so every evaluation - whatever the simulated date and
    // the time zone of the process - has to return what the fresh evaluator returned at the first date of the history
    if rng.chance(1, 3) {
      let mut g = Gen { rng: &mut rng, clock_bound: false };
      let text = g.zoneless_times();
      exprs.push(json!({"text": text, "clock_bound": false, "home": rng.index(n_scopes)}));
      n_exprs += 1;
    }
    let n_ctxs = rng.index(3);
    let mut ctxs = vec![];
    for _ in 0..n_ctxs {
      let depth = rng.index(3) as u32;
      let mut g = Gen { rng: &mut rng, clock_bound: false };
      let text = g.context_text(depth);
      let cb = g.clock_bound;
      ctxs.push(json!({"text": text, "clock_bound": cb}));
    }
    let n_tables = rng.index(3);
    let tables: Vec<Value> = (0..n_tables).map(|_| json!(rng.index(TABLES.len()))).collect();
    let n_models = rng.index(4);
    let models: Vec<Value> = (0..n_models).map(|_| json!(rng.index(MODEL_CALLS.len()))).collect();
    let d0 = rng.pick(&CLOCK_DATES);
    let clock0 = simrt::days_from_civil(d0.0, d0.1, d0.2);
    let n_ops = 10 + rng.index(51);
    let mut ops = vec![];
    for _ in 0..n_ops {
      let roll = rng.index(100);
      let op = if roll < 55 {
        // mostly the home scope, often a foreign one
        let e = rng.index(n_exprs);
        let s = if rng.chance(1, 2) { pu64(&exprs[e], "home") as usize } else { rng.index(n_scopes) };
        json!({"op": "eval", "e": e, "s": s})
      } else if roll < 65 {
        json!({"op": "parse", "e": rng.index(n_exprs), "s": rng.index(n_scopes)})
      } else if roll < 70 && n_ctxs > 0 {
        json!({"op": "ctx", "c": rng.index(n_ctxs), "s": rng.index(n_scopes)})
      } else if roll < 75 && n_tables > 0 {
        json!({"op": "table", "t": rng.index(n_tables), "s": rng.index(n_scopes)})
      } else if roll < 85 && n_models > 0 {
        json!({"op": "model", "m": rng.index(n_models), "x": rng.index(INPUT_VARIANTS.len())})
      } else if roll < 92 {
        let d = rng.pick(&CLOCK_DATES);
        let days = if rng.chance(1, 3) { clock0 } else { simrt::days_from_civil(d.0, d.1, d.2) };
        json!({"op": "clock", "days": days, "tick": if rng.chance(1, 5) { 1 } else { 0 }})
      } else if roll < 96 {
        json!({"op": "handover"})
      } else {
        let e = rng.index(n_exprs);
        json!({"op": "eval", "e": e, "s": rng.index(n_scopes)})
      };
      ops.push(op);
    }
    if rng.chance(1, 12) {
      let candidates: Vec<usize> = ops.iter().enumerate().filter(|(_, o)| matches!(pstr(o, "op"), "eval" | "table" | "model")).map(|(i, _)| i).collect();
      if !candidates.is_empty() {
        let i = *rng.pick(&candidates);
        let threshold = *rng.pick(&[16u64, 32, 64, 100, 128, 256, 500, 512, 1000, 1024]);
            // a model call may cost a millisecond: fewer repetitions there
        let rep = if pstr(&ops[i], "op") == "model" { threshold.min(256) } else { threshold };
        ops[i]["rep"] = json!(rep + rng.below(3));
      }
    }
    json!({"scopes": scopes, "exprs": exprs, "ctxs": ctxs, "tables": tables, "models": models, "clock0": clock0, "ops": ops})
  }
  fn exec(&self, plan: &Value, _mode: &ExecMode) -> Outcome {
    // evaluation code runs on a thread with the 8 MiB stack the service's workers have
    let plan = plan.clone();
    let r = std::thread::Builder::new().stack_size(8 * 1024 * 1024).spawn(move || C13.exec_inner(&plan)).expect("spawn").join();
    match r {
      Ok(o) => o,
      Err(_) => {
        let mut o = Outcome::default();
        o.harness_error = Some(format!("the history thread panicked outside a guarded operation: {}", take_last_panic()));
        o
      }
    }
  }
  fn shrink(&self, plan: &Value) -> Vec<Value> {
    let mut out = shrink_array(plan, "ops", 1);
    // drop tables and models that no operation needs is implicit (indices are taken modulo): drop whole families
    for key in ["tables", "models"] {
      if !parr(plan, key).is_empty() {
        let mut p = plan.clone();
        p[key] = json!([]);
        out.push(p);
      }
    }
    // fewer layers per scope
    for (i, s) in parr(plan, "scopes").iter().enumerate() {
      if pu64(s, "layers") > 1 {
        let mut p = plan.clone();
        p["scopes"][i]["layers"] = json!(pu64(s, "layers") - 1);
        out.push(p);
      }
    }
    out
  }
  fn rule_text(&self) -> String {
    "each run = one history of 10..60 operations (evaluate a prepared expression on its own or a foreign scope, re-parse on another scope, evaluate a recognised decision table, evaluate an invocable with one of five input variants, parse-and-evaluate a context literal on a long-lived scope as the service does with request bodies, move the clock / let it tick on every read, hand the objects over to another OS thread) over 2..4 long-lived scopes of 1..3 stacked contexts binding the same names to different values, 3..8 expressions from a seeded grammar of context-pushing constructs nested to depth 3 with deliberately failing sub-expressions, 0..2 tables, 0..2 model calls; distinct = distinct (expression text, scope shape, first-or-later position) triples; non-trivial = the expression pushes a temporary context".to_string()
  }
  fn assumptions(&self) -> Vec<String> {
    vec![
      "no reference interpreter: values are compared with the code's own earlier and history-free results, never with an outside notion of the right value".to_string(),
      "expressions containing a time-of-day value are compared only under an equal simulated date (a superset of the property's exemption)".to_string(),
      "a panic on the first evaluation of an expression is counted (crashes_observed) and not reported here: totality is another property".to_string(),
      "single OS thread at a time; the lock shim is in pass-through mode".to_string(),
    ]
  }
  fn real_stub(&self) -> Value {
    json!({"real": ["dmntk-feel-parser", "dmntk-feel-evaluator", "dmntk-feel (Scope, contexts, values)", "dmntk-recognizer + decision table evaluator", "dmntk-model-evaluator", "process time zone (TZ per block of runs)"], "stub": ["wall clock date (hook H4)"], "scheduler": "none"})
  }
  fn extra_pass(&self, tier: Tier, seed: u64) -> Option<ExtraPass> {
    Some(pristine_pass(self, tier, seed))
  }
  fn expected_probes(&self) -> Vec<&'static str> {
    vec![
      "eval.repeated_and_compared",
      "eval.compared_with_baseline",
      "eval.on_foreign_scope",
      "parse.reparsed_on_other_scope",
      "table.repeated_and_compared",
      "ctx.repeated_and_compared",
      "model.repeated_and_compared",
      "model.compared_with_baseline",
      "fault.clock_moved",
      "fault.clock_ticks_on_every_read",
      "fault.handover_to_other_thread",
    ]
  }
}


/// *Pristine-process pass.* The oracles above compare the code with itself inside ONE process; state that the process
/// keeps between runs and that the first user decides for good (a never evicted cache, say) gives them the same value
/// every time. Here a sample of runs is executed twice in fresh processes - once behind the (up to 60) runs that
/// precede it in its block, once alone - and the event logs (every value every operation returned) must be equal:
/// what a history returns does not depend on what the process evaluated before it.
fn pristine_pass(sim: &C13, tier: Tier, seed: u64) -> ExtraPass {
  let mut pass = ExtraPass { name: "pristine-process".to_string(), ..Default::default() };
  let samples: u64 = match tier {
    Tier::Quick => 320,
    Tier::Thorough => 3200,
  };
  let runs = sim.runs(tier);
  let block = sim.block(tier).max(1);
  let results: std::sync::Mutex<Vec<(u64, u64, Outcome, Outcome, Value)>> = std::sync::Mutex::new(vec![]);
  let next = std::sync::atomic::AtomicU64::new(0);
  let workers = std::env::var("VERIF_JOBS").ok().and_then(|v| v.parse::<usize>().ok()).unwrap_or(8).clamp(1, 16);
  std::thread::scope(|scope| {
    for _ in 0..workers {
      scope.spawn(|| loop {
        let k = next.fetch_add(1, std::sync::atomic::Ordering::Relaxed);
        if k >= samples {
          break;
        }
        // the sample is drawn among the runs that hold a sibling pair (expressions that differ in one argument
        // only): what a process keeps per expression text or per argument is shared by such runs
        let mut pick: Option<(u64, Value)> = None;
        for attempt in 0..40u64 {
          let run = derive(seed, "C13-pristine", k * 64 + attempt) % runs;
          let plan = sim.gen_plan(seed, run, tier);
          if parr(&plan, "exprs").iter().any(|e| pbool(e, "sib")) {
            pick = Some((run, plan));
            break;
          }
        }
        let (run, plan) = match pick {
          Some(p) => p,
          None => continue,
        };
        let from = ((run / block) * block).max(run.saturating_sub(60));
        if from == run {
          continue;
        }
        let tz = sim.tz_of_block(run / block);
        let alone = json!({"property": "C13", "tier": tier.name(), "seed": seed, "run": run, "tz": tz, "plan": plan, "schedule": null});
        let mut behind = alone.clone();
        behind["prefix"] = json!({"from": from, "why": "pristine-process pass: the runs of the block before this one are executed first"});
        let a = crate::driver::exec_isolated(sim, &alone, "replay", 0, tz);
        let b = crate::driver::exec_isolated(sim, &behind, "replay", 0, tz);
        results.lock().unwrap_or_else(|e| e.into_inner()).push((run, from, a, b, behind));
      });
    }
  });
  let mut results = results.into_inner().unwrap_or_else(|e| e.into_inner());
  results.sort_by_key(|r| r.0);
  for (run, from, a, b, mut doc) in results {
    pass.counters.inc("pristine.runs_compared");
    pass.counters.add("pristine.predecessors_executed", run - from);
    if a.harness_error.is_some() || b.harness_error.is_some() || a.violation.is_some() || b.violation.is_some() {
      // a run that violates by itself is the batch's business; trouble of the harness is not a verdict
      pass.counters.inc("pristine.skipped");
      continue;
    }
    if a.log_hash != b.log_hash {
      let first_difference = a.log_tail.iter().zip(b.log_tail.iter()).find(|(x, y)| x != y).map(|(x, y)| format!("alone: {} | behind its predecessors: {}", x, y)).unwrap_or_else(|| "the logs differ before their last lines".to_string());
      let v = Violation::new(
        "depends-on-earlier-runs",
        "C13:depends-on-earlier-runs:value-differs-from-pristine-process".to_string(),
        0,
        format!("run {} returns the same values alone in a fresh process and behind the runs {}..{} of its block", run, from, run),
        first_difference,
      );
      doc["violation"] = v.to_json();
      doc["pristine_log_hash"] = json!(a.log_hash);
      pass.violations.push((doc, v));
    }
  }
  pass.note = "a sample of runs executed alone in a fresh process and behind their predecessors in the block: equal event logs".to_string();
  pass
}
