//! The only source of randomness of the simulator: SplitMix64 for seed derivation,
//! xoshiro256** for the stream a plan is generated from.

/// One step of SplitMix64.
pub fn splitmix64(state: &mut u64) -> u64 {
  *state = state.wrapping_add(0x9E37_79B9_7F4A_7C15);
  let mut z = *state;
  z = (z ^ (z >> 30)).wrapping_mul(0xBF58_476D_1CE4_E5B9);
  z = (z ^ (z >> 27)).wrapping_mul(0x94D0_49BB_1331_11EB);
  z ^ (z >> 31)
}

/// FNV-1a over bytes, used for tags and for hashing traces (stable across runs and platforms).
pub fn fnv1a(bytes: &[u8]) -> u64 {
  let mut h: u64 = 0xcbf2_9ce4_8422_2325;
  for b in bytes {
    h ^= *b as u64;
    h = h.wrapping_mul(0x0000_0100_0000_01B3);
  }
  h
}

/// Incremental hasher with the same function.
#[derive(Clone, Copy, Debug)]
pub struct Hasher(pub u64);

impl Default for Hasher {
  fn default() -> Self {
    Self(0xcbf2_9ce4_8422_2325)
  }
}

impl Hasher {
  pub fn bytes(&mut self, bytes: &[u8]) {
    for b in bytes {
      self.0 ^= *b as u64;
      self.0 = self.0.wrapping_mul(0x0000_0100_0000_01B3);
    }
  }
  pub fn str(&mut self, s: &str) {
    self.bytes(s.as_bytes());
    self.bytes(&[0xff]);
  }
  pub fn u64(&mut self, v: u64) {
    self.bytes(&v.to_le_bytes());
  }
  pub fn finish(&self) -> u64 {
    let mut s = self.0;
    splitmix64(&mut s)
  }
}

/// Seed of run `index` of the batch of `tag` under the master seed.
pub fn derive(seed: u64, tag: &str, index: u64) -> u64 {
  let mut s = seed ^ fnv1a(tag.as_bytes()).rotate_left(17);
  let a = splitmix64(&mut s);
  let mut t = a ^ index.wrapping_mul(0xD6E8_FEB8_6659_FD93);
  splitmix64(&mut t)
}

/// xoshiro256**.
#[derive(Clone, Debug)]
pub struct Rng {
  s: [u64; 4],
}

impl Rng {
  pub fn new(seed: u64) -> Self {
    let mut sm = seed;
    let s = [splitmix64(&mut sm), splitmix64(&mut sm), splitmix64(&mut sm), splitmix64(&mut sm)];
    Self { s }
  }
  pub fn next_u64(&mut self) -> u64 {
    let result = self.s[1].wrapping_mul(5).rotate_left(7).wrapping_mul(9);
    let t = self.s[1] << 17;
    self.s[2] ^= self.s[0];
    self.s[3] ^= self.s[1];
    self.s[1] ^= self.s[2];
    self.s[0] ^= self.s[3];
    self.s[2] ^= t;
    self.s[3] = self.s[3].rotate_left(45);
    result
  }
  /// Uniform in `0..n` (n > 0).
  pub fn below(&mut self, n: u64) -> u64 {
    debug_assert!(n > 0);
    // multiply-shift, bias is irrelevant here
    ((self.next_u64() as u128 * n as u128) >> 64) as u64
  }
  pub fn index(&mut self, n: usize) -> usize {
    self.below(n as u64) as usize
  }
  /// Uniform in `lo..=hi`.
  pub fn range(&mut self, lo: i64, hi: i64) -> i64 {
    lo + self.below((hi - lo + 1) as u64) as i64
  }
  /// True with probability `num/den`.
  pub fn chance(&mut self, num: u64, den: u64) -> bool {
    self.below(den) < num
  }
  pub fn pick<'a, T>(&mut self, items: &'a [T]) -> &'a T {
    &items[self.index(items.len())]
  }
  pub fn shuffle<T>(&mut self, items: &mut [T]) {
    for i in (1..items.len()).rev() {
      let j = self.index(i + 1);
      items.swap(i, j);
    }
  }
  /// Geometric-ish length in `lo..=hi`, biased to short.
  pub fn short_len(&mut self, lo: usize, hi: usize) -> usize {
    let mut n = lo;
    while n < hi && self.chance(3, 4) {
      n += 1;
    }
    // mix with uniform so that long ones are not starved
    if self.chance(1, 4) {
      lo + self.index(hi - lo + 1)
    } else {
      n
    }
  }
  /// Random subset with each element kept with probability 1/2, at least `min` elements.
  pub fn subset<T: Clone>(&mut self, items: &[T], min: usize) -> Vec<T> {
    let mut out: Vec<T> = items.iter().filter(|_| self.chance(1, 2)).cloned().collect::<Vec<T>>();
    if out.len() < min {
      let mut all: Vec<T> = items.to_vec();
      self.shuffle(&mut all);
      out = all.into_iter().take(min).collect();
    }
    out
  }
}
