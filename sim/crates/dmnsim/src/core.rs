//! Common types of the simulator: plans, outcomes, violations, the `Sim` trait.

use serde_json::{json, Map, Value};
use std::collections::BTreeMap;

/// Sentinel prefix of every line of the child -> parent protocol. Everything else a child
/// prints (the code under test prints too) is ignored by the parent.
pub const SENTINEL: &str = "@@DMNSIM ";

#[derive(Clone, Copy, Debug, PartialEq, Eq)]
pub enum Tier {
  Quick,
  Thorough,
}

impl Tier {
  pub fn parse(s: &str) -> Option<Tier> {
    match s {
      "quick" => Some(Tier::Quick),
      "thorough" => Some(Tier::Thorough),
      _ => None,
    }
  }
  pub fn name(&self) -> &'static str {
    match self {
      Tier::Quick => "quick",
      Tier::Thorough => "thorough",
    }
  }
}

/// A violation of a property found by an oracle.
#[derive(Clone, Debug)]
pub struct Violation {
  /// Identifier of the oracle rule.
  pub rule: String,
  /// Signature: rule + the discriminating site, used for known findings and for minimisation.
  pub signature: String,
  /// Index of the event (operation) at which the oracle fired.
  pub event_index: u64,
  pub expected: String,
  pub observed: String,
}

impl Violation {
  pub fn new(rule: &str, signature: impl Into<String>, event_index: u64, expected: impl Into<String>, observed: impl Into<String>) -> Self {
    Self {
      rule: rule.to_string(),
      signature: signature.into(),
      event_index,
      expected: expected.into(),
      observed: observed.into(),
    }
  }
  pub fn to_json(&self) -> Value {
    json!({"rule": self.rule, "signature": self.signature, "event_index": self.event_index, "expected": self.expected, "observed": self.observed})
  }
  pub fn from_json(v: &Value) -> Option<Self> {
    Some(Self {
      rule: v.get("rule")?.as_str()?.to_string(),
      signature: v.get("signature")?.as_str()?.to_string(),
      event_index: v.get("event_index")?.as_u64()?,
      expected: v.get("expected")?.as_str()?.to_string(),
      observed: v.get("observed")?.as_str()?.to_string(),
    })
  }
}

/// Additive counters (faults fired, probes hit, operations by kind, ...).
#[derive(Clone, Debug, Default)]
pub struct Counters(pub BTreeMap<String, u64>);

impl Counters {
  pub fn add(&mut self, key: &str, n: u64) {
    if n > 0 {
      *self.0.entry(key.to_string()).or_insert(0) += n;
    }
  }
  pub fn inc(&mut self, key: &str) {
    self.add(key, 1);
  }
  pub fn max(&mut self, key: &str, n: u64) {
    let e = self.0.entry(key.to_string()).or_insert(0);
    if n > *e {
      *e = n;
    }
  }
  pub fn get(&self, key: &str) -> u64 {
    self.0.get(key).copied().unwrap_or(0)
  }
  /// Merges; keys starting with `max.` are merged by maximum, all others by sum.
  pub fn merge(&mut self, other: &Counters) {
    for (k, v) in &other.0 {
      if k.starts_with("max.") {
        self.max(k, *v);
      } else {
        self.add(k, *v);
      }
    }
  }
  pub fn to_json(&self) -> Value {
    Value::Object(self.0.iter().map(|(k, v)| (k.clone(), json!(v))).collect::<Map<String, Value>>())
  }
  pub fn from_json(v: &Value) -> Self {
    let mut c = Counters::default();
    if let Some(o) = v.as_object() {
      for (k, v) in o {
        if let Some(n) = v.as_u64() {
          c.0.insert(k.clone(), n);
        }
      }
    }
    c
  }
}

/// What one execution of one plan produced.
#[derive(Clone, Debug, Default)]
pub struct Outcome {
  pub violation: Option<Violation>,
  pub counters: Counters,
  /// Hash of the complete event log of the run (determinism self-test compares it).
  pub log_hash: u64,
  /// Keys of the distinct non-trivial cases this run covered (by the simulator's stated rule).
  pub distinct_keys: Vec<u64>,
  /// Recorded scheduler decisions (scheduled simulators only).
  pub schedule: Option<Value>,
  /// Last events of the log, for the replay file.
  pub log_tail: Vec<String>,
  /// Harness trouble (not a verdict about the code).
  pub harness_error: Option<String>,
}

/// How a plan is to be executed.
#[derive(Clone, Debug)]
pub enum ExecMode {
  /// As generated: the scheduler kind and seed of the plan decide.
  Fresh,
  /// Re-execute the recorded scheduler decisions.
  Replay(Value),
  /// Same plan, scheduler seeded differently (used by the minimiser).
  Reseed(u64),
}

/// A simulator of one property.
pub trait Sim: Sync {
  fn id(&self) -> &'static str;
  /// `exploration` or `fault_enumeration`.
  fn level(&self) -> &'static str;
  /// Number of runs of a batch.
  fn runs(&self, tier: Tier) -> u64;
  /// Runs per child process (one block is executed by one child under one TZ).
  fn block(&self, tier: Tier) -> u64;
  /// Watchdog per run in milliseconds.
  fn watchdog_ms(&self) -> u64 {
    20_000
  }
  /// Process time zone of a block (POSIX TZ string), recorded in replay files.
  fn tz_of_block(&self, _block: u64) -> &'static str {
    "UTC0"
  }
  /// One-off preparation in a child before its first run (caches).
  fn child_setup(&self) {}
  /// Generates the plan of run `run`. Pure function of its arguments and of the files under /repo.
  fn gen_plan(&self, seed: u64, run: u64, tier: Tier) -> Value;
  /// Executes a plan.
  fn exec(&self, plan: &Value, mode: &ExecMode) -> Outcome;
  /// Candidate simplifications of a plan, most aggressive first.
  fn shrink(&self, plan: &Value) -> Vec<Value>;
  /// Number of scheduler seeds tried per candidate when minimising (0 = not scheduled).
  fn reseeds_when_shrinking(&self) -> u64 {
    0
  }
  /// Text for evidence: how cases are generated and what makes one distinct and non-trivial.
  fn rule_text(&self) -> String;
  fn assumptions(&self) -> Vec<String>;
  /// Table of what ran real and what ran as a stub.
  fn real_stub(&self) -> Value;
  /// Probe counters that should not stay at zero in the thorough tier.
  fn expected_probes(&self) -> Vec<&'static str> {
    vec![]
  }
  /// Signature of a process death / hang of the run of this plan (no panic record exists for those).
  fn death_signature(&self, _plan: &Value, _how: &str, _hang: bool, _marker: Option<&str>) -> Option<String> {
    None
  }
  /// Is a watchdog expiry of this plan inconclusive rather than a violation?
  fn hang_is_inconclusive(&self, _plan: &Value, _marker: Option<&str>) -> bool {
    false
  }
  /// Extra, simulator specific passes run by the parent after the batch (e.g. loopback conformance).
  fn extra_pass(&self, _tier: Tier, _seed: u64) -> Option<ExtraPass> {
    None
  }
}

/// Result of an extra pass.
#[derive(Clone, Debug, Default)]
pub struct ExtraPass {
  pub name: String,
  pub counters: Counters,
  pub violations: Vec<(Value, Violation)>,
  pub note: String,
}

/// Fetches helpers for plans.
pub fn pstr<'a>(v: &'a Value, key: &str) -> &'a str {
  v.get(key).and_then(|x| x.as_str()).unwrap_or("")
}
pub fn pu64(v: &Value, key: &str) -> u64 {
  v.get(key).and_then(|x| x.as_u64()).unwrap_or(0)
}
pub fn pi64(v: &Value, key: &str) -> i64 {
  v.get(key).and_then(|x| x.as_i64()).unwrap_or(0)
}
pub fn pbool(v: &Value, key: &str) -> bool {
  v.get(key).and_then(|x| x.as_bool()).unwrap_or(false)
}
pub fn parr<'a>(v: &'a Value, key: &str) -> &'a [Value] {
  v.get(key).and_then(|x| x.as_array()).map(|a| a.as_slice()).unwrap_or(&[])
}

/// Generic shrinking of the array `key` of a plan: drop halves, then single elements.
pub fn shrink_array(plan: &Value, key: &str, min_len: usize) -> Vec<Value> {
  let mut out = vec![];
  let items = parr(plan, key);
  let n = items.len();
  if n <= min_len {
    return out;
  }
  let mut push = |kept: Vec<Value>| {
    if kept.len() >= min_len && kept.len() < n {
      let mut p = plan.clone();
      p[key] = Value::Array(kept);
      out.push(p);
    }
  };
  if n >= 4 {
    push(items[..n / 2].to_vec());
    push(items[n / 2..].to_vec());
  }
  // drop a suffix (operations after the violating one are irrelevant)
  for cut in (min_len..n).rev().take(3) {
    push(items[..cut].to_vec());
  }
  for i in 0..n {
    let mut kept = items.to_vec();
    kept.remove(i);
    push(kept);
  }
  out
}
