//! The small model alphabet shared by the workspace and service simulations.
//!
//! Every model has one decision `d` returning a string constant that is unique to the model
//! *version*, so that every evaluation result is attributable to exactly one stored text.

use dmntk_feel::context::FeelContext;
use dmntk_model::model::NamedElement;
use std::collections::BTreeMap;

#[derive(Clone, Debug)]
pub struct AlphaModel {
  /// Key in plans: A1, A2, B, B2, C, D, E, F, G, H, I, J, K, L, M, N
  pub key: &'static str,
  pub namespace: &'static str,
  pub name: &'static str,
  /// Constant returned by decision `d`.
  pub version: &'static str,
  pub xml: String,
}

fn model_xml(namespace: &str, name: &str, version: &str, broken: bool) -> String {
  let logic = if broken {
    // parses as a model, cannot be built: the literal expression is not FEEL
    "<literalExpression><text>\"x\" +* )</text></literalExpression>".to_string()
  } else {
    format!("<literalExpression><text>\"{}\"</text></literalExpression>", version)
  };
  let mut echoes = String::new();
  for (input, type_ref) in ECHO_INPUTS {
    echoes.push_str(&format!(
      r##"<inputData name="{i}" id="_in_{i}_{v}"><variable typeRef="{t}" name="{i}"/></inputData>
  <decision name="echo_{i}" id="_echo_{i}_{v}">
    <variable typeRef="{t}" name="echo_{i}"/>
    <informationRequirement id="_ir_{i}_{v}"><requiredInput href="#_in_{i}_{v}"/></informationRequirement>
    <literalExpression><text>{i}</text></literalExpression>
  </decision>
  "##,
      i = input,
      t = type_ref,
      v = version
    ));
  }
  format!(
    r##"<?xml version="1.0" encoding="UTF-8"?>
<definitions namespace="{ns}" name="{name}" id="_def_{v}" xmlns="https://www.omg.org/spec/DMN/20191111/MODEL/">
  <decision name="d" id="_d_{v}">
    <variable typeRef="string" name="d"/>
    {logic}
  </decision>
  <decision name="tod" id="_tod_{v}">
    <variable typeRef="Any" name="tod"/>
    <literalExpression><text>[time("02:30:00@Europe/Warsaw") = time("03:30:00@Europe/Paris"), time("01:30:00@America/New_York") = time("02:30:00@America/New_York"), time("02:15:00@Australia/Lord_Howe") = time("02:15:00@Australia/Lord_Howe")]</text></literalExpression>
  </decision>
  {echoes}
  <itemDefinition name="tNumbers" isCollection="true" id="_t_numbers_{v}">
    <typeRef>number</typeRef>
  </itemDefinition>
  <itemDefinition name="tPerson" id="_t_person_{v}">
    <itemComponent name="name" id="_t_person_name_{v}"><typeRef>string</typeRef></itemComponent>
    <itemComponent name="age" id="_t_person_age_{v}"><typeRef>number</typeRef></itemComponent>
    <itemComponent name="scores" id="_t_person_scores_{v}"><typeRef>tNumbers</typeRef></itemComponent>
  </itemDefinition>
  <inputData name="l" id="_in_l_{v}"><variable typeRef="tNumbers" name="l"/></inputData>
  <inputData name="p" id="_in_p_{v}"><variable typeRef="tPerson" name="p"/></inputData>
  <decision name="echo_l" id="_echo_l_{v}">
    <variable typeRef="tNumbers" name="echo_l"/>
    <informationRequirement id="_ir_l_{v}"><requiredInput href="#_in_l_{v}"/></informationRequirement>
    <literalExpression><text>l</text></literalExpression>
  </decision>
  <decision name="echo_p" id="_echo_p_{v}">
    <variable typeRef="tPerson" name="echo_p"/>
    <informationRequirement id="_ir_p_{v}"><requiredInput href="#_in_p_{v}"/></informationRequirement>
    <literalExpression><text>p</text></literalExpression>
  </decision>
  <decision name="scale_n" id="_scale_n_{v}">
    <variable typeRef="number" name="scale_n"/>
    <informationRequirement id="_ir_scale_n_{v}"><requiredInput href="#_in_n_{v}"/></informationRequirement>
    <informationRequirement id="_ir_scale_sc_{v}"><requiredInput href="#_in_sc_{v}"/></informationRequirement>
    <literalExpression><text>decimal(n, sc)</text></literalExpression>
  </decision>
  <decision name="odd_keys" id="_odd_keys_{v}">
    <variable typeRef="Any" name="odd_keys"/>
    <informationRequirement id="_ir_ok_s_{v}"><requiredInput href="#_in_s_{v}"/></informationRequirement>
    <informationRequirement id="_ir_ok_n_{v}"><requiredInput href="#_in_n_{v}"/></informationRequirement>
    <informationRequirement id="_ir_ok_b_{v}"><requiredInput href="#_in_b_{v}"/></informationRequirement>
    <literalExpression><text>{{"": s, "a\"b": s, "1": [[s], [], [[n, [b]]]], "x&#9;y": {{"": []}}, "\\": null, "é中": b, "k\u0001": n, "e": {{}}, "le": [{{}}, [], {{"": {{}}}}]}}</text></literalExpression>
  </decision>
  <decision name="many" id="_many_{v}">
    <variable typeRef="Any" name="many"/>
    <informationRequirement id="_ir_many_s_{v}"><requiredInput href="#_in_s_{v}"/></informationRequirement>
    <informationRequirement id="_ir_many_n_{v}"><requiredInput href="#_in_n_{v}"/></informationRequirement>
    <informationRequirement id="_ir_many_b_{v}"><requiredInput href="#_in_b_{v}"/></informationRequirement>
    <literalExpression><text>{many}</text></literalExpression>
  </decision>
  <decision name="echo_mix" id="_echo_mix_{v}">
    <variable typeRef="Any" name="echo_mix"/>
    <informationRequirement id="_ir_mix_s_{v}"><requiredInput href="#_in_s_{v}"/></informationRequirement>
    <informationRequirement id="_ir_mix_n_{v}"><requiredInput href="#_in_n_{v}"/></informationRequirement>
    <informationRequirement id="_ir_mix_b_{v}"><requiredInput href="#_in_b_{v}"/></informationRequirement>
    <literalExpression><text>{{"text": s, "num": n, "flag": b, "list": [s, n, b, null, [s]], "nested": {{"inner key": s, "q\"k": n, "deep": [{{"z": n}}]}}}}</text></literalExpression>
  </decision>
</definitions>
"##,
    ns = namespace,
    name = name,
    v = version,
    logic = logic,
    echoes = echoes,
    many = crate::c18::MANY_EXPRESSION
  )
}

/// The alphabet. Relations: A1/A2 identical keys, different text; B2 another version of B;
/// C shares A's namespace; D shares A's name; E has B's namespace and A's name; F parses but
/// does not build; G is byte-identical to B; H is disjoint; I, J, K have keys that a normalising index
/// would confuse with A's (case, trailing slash / space) or that need escaping (non-ASCII, space).
pub fn alphabet() -> Vec<AlphaModel> {
  static CACHE: std::sync::OnceLock<Vec<AlphaModel>> = std::sync::OnceLock::new();
  CACHE
    .get_or_init(|| {
      let mut all: Vec<AlphaModel> = ALPHA_SPEC
        .iter()
        .map(|(key, ns, name, version, broken)| AlphaModel {
          key,
          namespace: ns,
          name,
          version,
          xml: model_xml(ns, name, version, *broken),
        })
        .collect();
      // bulk models X00..X23: disjoint keys, only added by the `bulk` operation (to get past any threshold
      // on the number of stored models)
      for i in 0..BULK_MODELS {
        let key: &'static str = Box::leak(format!("X{:02}", i).into_boxed_str());
        let ns: &'static str = Box::leak(format!("urn:x:{:02}", i).into_boxed_str());
        let name: &'static str = Box::leak(format!("mx{:02}", i).into_boxed_str());
        all.push(AlphaModel {
          key,
          namespace: ns,
          name,
          version: key,
          xml: model_xml(ns, name, key, false),
        });
      }
      all
    })
    .clone()
}

pub const BULK_MODELS: usize = 24;

/// Typed inputs of the echo decisions `echo_<input>` (input data must be typed in this implementation).
pub const ECHO_INPUTS: [(&str, &str); 9] = [
  ("s", "string"),
  ("n", "number"),
  ("sc", "number"),
  ("b", "boolean"),
  ("d", "date"),
  ("t", "time"),
  ("dt", "dateTime"),
  ("dd", "dayTimeDuration"),
  ("ym", "yearMonthDuration"),
];

/// (key, namespace, name, version, broken)
pub const ALPHA_SPEC: [(&str, &str, &str, &str, bool); 16] = [
  ("A1", "urn:a", "ma", "A1", false),
  ("A2", "urn:a", "ma", "A2", false),
  ("B", "urn:b", "mb", "B", false),
  ("B2", "urn:b", "mb", "B2", false),
  ("C", "urn:a", "mc", "C", false),
  ("D", "urn:d", "ma", "D", false),
  ("E", "urn:b", "ma", "E", false),
  ("F", "urn:f", "mf", "F", true),
  ("G", "urn:b", "mb", "B", false),
  ("H", "urn:h", "mh", "H", false),
  // keys that differ from A's only by case, by a trailing slash / space, and non-ASCII keys with a space
  ("I", "urn:A", "MA", "I", false),
  ("J", "urn:a/", "ma ", "J", false),
  ("K", "urn:\u{e4}", "m\u{e4} \u{f6}", "K", false),
  // keys crossed with A's: the namespace is A's name and the name is A's namespace (an index consulted with the
  // wrong key would confuse them); a model whose name equals its own namespace; an empty namespace
  ("L", "ma", "urn:a", "L", false),
  ("M", "urn:m", "urn:m", "M", false),
  ("N", "", "mn", "N", false),
];

pub const ALPHA_KEYS: [&str; 16] = ["A1", "A2", "B", "B2", "C", "D", "E", "F", "G", "H", "I", "J", "K", "L", "M", "N"];

/// Facts about the alphabet established by running the code under test on each model alone
/// (the oracle compares the code with itself, never with an outside notion of the right value).
#[derive(Clone, Debug, Default)]
pub struct AlphaFacts {
  pub parses: BTreeMap<String, bool>,
  pub builds: BTreeMap<String, bool>,
  /// Text of `evaluate_invocable("d")` for each building model.
  pub value_d: BTreeMap<String, String>,
  /// (namespace, name) as reported by the parsed definitions.
  pub keys: BTreeMap<String, (String, String)>,
}

pub fn establish_facts(models: &[AlphaModel]) -> AlphaFacts {
  let mut facts = AlphaFacts::default();
  for m in models {
    match dmntk_model::parse(&m.xml) {
      Ok(defs) => {
        facts.parses.insert(m.key.to_string(), true);
        facts.keys.insert(m.key.to_string(), (defs.namespace().to_string(), defs.name().to_string()));
        match dmntk_model_evaluator::ModelEvaluator::new(&defs) {
          Ok(me) => {
            facts.builds.insert(m.key.to_string(), true);
            let v = me.evaluate_invocable("d", &FeelContext::default());
            facts.value_d.insert(m.key.to_string(), v.to_string());
          }
          Err(_) => {
            facts.builds.insert(m.key.to_string(), false);
          }
        }
      }
      Err(_) => {
        facts.parses.insert(m.key.to_string(), false);
        facts.builds.insert(m.key.to_string(), false);
      }
    }
  }
  facts
}

pub fn by_key<'a>(models: &'a [AlphaModel], key: &str) -> Option<&'a AlphaModel> {
  models.iter().find(|m| m.key == key)
}
