//! C20 - a deployed model may be evaluated from many threads with per-call results intact.
//!
//! N simulated threads share one `Arc<ModelEvaluator>` under shuttle's seeded random / PCT / URW
//! schedulers; every lock operation of the (mirrored) dmntk crates and every `Scope::push/pop` is a
//! scheduling point. Oracle: each concurrent call returns what the same call returned alone;
//! no deadlock, no poisoned registry, progress within a step bound. Faults: bounded stalls and a
//! thread crash at an arbitrary scheduling point.

use crate::core::*;
use crate::driver::{panic_site, take_last_panic};
use crate::rng::{derive, Hasher, Rng};
use crate::sched::Kind;
use crate::simrt::{self, PointFaults, SchedFailure, INJECTED_CRASH};
use dmntk_feel::context::FeelContext;
use dmntk_feel::Scope;
use dmntk_model::model::Definitions;
use dmntk_model_evaluator::ModelEvaluator;
use serde_json::{json, Value};
use std::collections::BTreeMap;
use std::panic::{catch_unwind, AssertUnwindSafe};
use std::sync::{Arc, Mutex, OnceLock};

pub struct C20;

#[derive(Clone, Debug)]
pub struct Row {
  pub model: String,
  pub invocable: String,
  pub ctx: String,
}

struct Setup {
  rows: Vec<Row>,
  /// rows grouped by model
  by_model: BTreeMap<String, Vec<usize>>,
  models: Vec<String>,
}

static SETUP: OnceLock<Setup> = OnceLock::new();
static DEFS: Mutex<BTreeMap<String, Option<Arc<Definitions>>>> = Mutex::new(BTreeMap::new());

pub fn repo_dir() -> String {
  std::env::var("VERIF_REPO").unwrap_or_else(|_| "/repo".to_string())
}

pub fn data_dir() -> std::path::PathBuf {
  std::env::var("VERIF_SIM").map(std::path::PathBuf::from).unwrap_or_else(|_| std::path::PathBuf::from("/verif/sim")).join("data")
}

const GEN_INVOCABLES: [&str; 35] = ["sw1", "sw2", "sw3", "sw4", "sw6", "sw7", "misc", "inv2", "rx2", "tu2", "tany2", "tp2", "to2", "num", "tmp", "rx", "c1", "c2", "c3", "c4", "svc", "tbl", "label", "rel", "lst", "inv", "fnd", "tp", "to", "tr", "tcnt", "tmin", "tdef", "tany", "tfirst"];

fn setup() -> &'static Setup {
  SETUP.get_or_init(|| {
    let mut rows: Vec<Row> = vec![];
    if let Ok(text) = std::fs::read_to_string(data_dir().join("c20_workload.json")) {
      if let Ok(Value::Array(items)) = serde_json::from_str::<Value>(&text) {
        for it in items {
          rows.push(Row {
            model: pstr(&it, "model").to_string(),
            invocable: pstr(&it, "invocable").to_string(),
            ctx: pstr(&it, "ctx").to_string(),
          });
        }
      }
    }
    for inv in GEN_INVOCABLES {
      rows.push(Row {
        model: "gen".to_string(),
        invocable: inv.to_string(),
        ctx: if inv == "label" { "{n: 7, t: \"ab12_34\"}".to_string() } else { "{x: 7, s: \"ab12_34\"}".to_string() },
      });
    }
    for inv in [format!("L{}", DEEP_DECISIONS), format!("L{}", DEEP_DECISIONS), format!("L{}", DEEP_DECISIONS / 2), "L7".to_string(), "viaK".to_string(), "viaK".to_string()] {
      rows.push(Row { model: "deep".to_string(), invocable: inv, ctx: "{x: 7, s: \"ab12_34\"}".to_string() });
    }
    let mut by_model: BTreeMap<String, Vec<usize>> = BTreeMap::new();
    for (i, r) in rows.iter().enumerate() {
      by_model.entry(r.model.clone()).or_default().push(i);
    }
    let models = by_model.keys().cloned().collect();
    Setup { rows, by_model, models }
  })
}

/// Model text from the working tree (`gen` = the simulator's own multi-family model).
pub fn model_text(model: &str) -> Option<String> {
  if model == "deep" {
    return Some(deep_model_text());
  }
  if model == "gen" {
    std::fs::read_to_string(data_dir().join("gen.dmn")).ok()
  } else if let Some(name) = model.strip_prefix("edge:") {
    std::fs::read_to_string(data_dir().join("edge").join(name)).ok()
  } else {
    std::fs::read_to_string(format!("{}/examples/src/{}", repo_dir(), model)).ok()
  }
}

pub const DEEP_DECISIONS: usize = 160;
pub const DEEP_KNOWLEDGE: usize = 96;

/// A model whose size lies in its *depth*: a chain of 160 decisions each requiring the one before it, and a chain
/// of 96 business knowledge models each invoking the one before it. Many threads nested deep inside it at once is
/// what a guard, a counter or a pool shared between calls has to survive.
fn deep_model_text() -> String {
  let mut t = String::from("<?xml version=\"1.0\" encoding=\"UTF-8\"?>\n<definitions namespace=\"urn:verif:deep\" name=\"deep\" id=\"_deep\" xmlns=\"https://www.omg.org/spec/DMN/20191111/MODEL/\">\n");
  t.push_str("  <inputData name=\"x\" id=\"_x\"><variable typeRef=\"number\" name=\"x\"/></inputData>\n  <inputData name=\"s\" id=\"_s\"><variable typeRef=\"string\" name=\"s\"/></inputData>\n");
  for k in 1..=DEEP_DECISIONS {
    let (req, text) = if k == 1 { ("<requiredInput href=\"#_x\"/>".to_string(), "x + 1".to_string()) } else { (format!("<requiredDecision href=\"#_L{}\"/>", k - 1), format!("L{} + 1", k - 1)) };
    t.push_str(&format!(
      "  <decision name=\"L{k}\" id=\"_L{k}\"><variable typeRef=\"number\" name=\"L{k}\"/><informationRequirement id=\"_L{k}_r\">{req}</informationRequirement><literalExpression><text>{text}</text></literalExpression></decision>\n"
    ));
  }
  for k in 1..=DEEP_KNOWLEDGE {
    let (req, text) = if k == 1 { (String::new(), "p + 1".to_string()) } else { (format!("<knowledgeRequirement id=\"_K{}_k\"><requiredKnowledge href=\"#_K{}\"/></knowledgeRequirement>", k, k - 1), format!("K{}(p) + 1", k - 1)) };
    t.push_str(&format!(
      "  <businessKnowledgeModel name=\"K{k}\" id=\"_K{k}\"><variable name=\"K{k}\"/><encapsulatedLogic><formalParameter typeRef=\"number\" name=\"p\"/><literalExpression typeRef=\"number\"><text>{text}</text></literalExpression></encapsulatedLogic>{req}</businessKnowledgeModel>\n"
    ));
  }
  t.push_str(&format!(
    "  <decision name=\"viaK\" id=\"_viaK\"><variable typeRef=\"string\" name=\"viaK\"/><informationRequirement id=\"_viaK_r1\"><requiredInput href=\"#_x\"/></informationRequirement><informationRequirement id=\"_viaK_r2\"><requiredInput href=\"#_s\"/></informationRequirement><knowledgeRequirement id=\"_viaK_k\"><requiredKnowledge href=\"#_K{n}\"/></knowledgeRequirement><literalExpression><text>s + string(K{n}(x))</text></literalExpression></decision>\n</definitions>\n",
    n = DEEP_KNOWLEDGE
  ));
  t
}

fn definitions(model: &str) -> Option<Arc<Definitions>> {
  let mut cache = DEFS.lock().unwrap_or_else(|p| p.into_inner());
  if let Some(d) = cache.get(model) {
    return d.clone();
  }
  let d = model_text(model).and_then(|t| catch_unwind(|| dmntk_model::parse(&t)).ok()).and_then(|r| r.ok()).map(Arc::new);
  cache.insert(model.to_string(), d.clone());
  d
}

/// Replaces one numeric or string literal of a context text by a value unique to (task, call).
fn fill_hole(rng: &mut Rng, ctx: &str, unique: u64) -> String {
  // candidate positions: numeric literals outside of strings, and string literal bodies
  let bytes: Vec<char> = ctx.chars().collect();
  let mut nums: Vec<(usize, usize)> = vec![];
  let mut strs: Vec<(usize, usize)> = vec![];
  let mut i = 0;
  while i < bytes.len() {
    let c = bytes[i];
    if c == '"' {
      let start = i + 1;
      let mut j = start;
      while j < bytes.len() && bytes[j] != '"' {
        if bytes[j] == '\\' {
          j += 1;
        }
        j += 1;
      }
      if j <= bytes.len() {
        strs.push((start, j.min(bytes.len())));
      }
      i = j + 1;
      continue;
    }
    if c.is_ascii_digit() && (i == 0 || !(bytes[i - 1].is_alphanumeric() || bytes[i - 1] == '_' || bytes[i - 1] == '.')) {
      let start = i;
      let mut j = i;
      while j < bytes.len() && (bytes[j].is_ascii_digit() || bytes[j] == '.') {
        j += 1;
      }
      if j >= bytes.len() || !(bytes[j].is_alphabetic()) {
        nums.push((start, j));
      }
      i = j;
      continue;
    }
    i += 1;
  }
  let total = nums.len() + strs.len();
  if total == 0 {
    return ctx.to_string();
  }
  let k = rng.index(total);
  let (start, end, replacement) = if k < nums.len() {
    (nums[k].0, nums[k].1, format!("{}", 1 + unique))
  } else {
    let (a, b) = strs[k - nums.len()];
    (a, b, format!("u{}_{}", unique, rng.below(100)))
  };
  let mut out: String = bytes[..start].iter().collect();
  out.push_str(&replacement);
  out.extend(bytes[end..].iter());
  out
}

#[derive(Clone, Debug)]
struct Call {
  model: String,
  invocable: String,
  ctx: String,
}

fn call_from(v: &Value) -> Call {
  Call {
    model: pstr(v, "model").to_string(),
    invocable: pstr(v, "invocable").to_string(),
    ctx: pstr(v, "ctx").to_string(),
  }
}

/// Result of one call: Ok(debug text) or Err(panic record).
type CallResult = Result<String, String>;

fn do_call(me: &ModelEvaluator, invocable: &str, input: &FeelContext) -> CallResult {
  let r = catch_unwind(AssertUnwindSafe(|| format!("{:?}", me.evaluate_invocable(invocable, input))));
  match r {
    Ok(text) => Ok(text),
    Err(_) => Err(take_last_panic()),
  }
}

/// The calls of a plan made alone: every call on a separately built evaluator, one after another, shim in
/// pass-through, twice (a call whose alone result is not repeatable is outside the oracle). Returns the results and
/// the number of scheduling points and lock operations passed; `None` when a model does not build (nothing to compare).
#[allow(clippy::type_complexity)]
fn alone_phase(tasks: &[Vec<Call>], inputs: &[Vec<Option<FeelContext>>], defs: &BTreeMap<String, Arc<Definitions>>, out: &mut Outcome) -> Option<(Vec<Vec<Option<CallResult>>>, u64)> {
  simrt::reset_points(PointFaults::default());
  let ops_before = dmntk_verif_sync::stats().ops_any_mode;
  let mut alone_eval: BTreeMap<String, Arc<ModelEvaluator>> = BTreeMap::new();
  for (m, d) in defs {
    match catch_unwind(AssertUnwindSafe(|| ModelEvaluator::new(d))) {
      Ok(Ok(me)) => {
        alone_eval.insert(m.clone(), me);
      }
      _ => {
        out.counters.inc("skipped.model_does_not_build");
        return None;
      }
    }
  }
  let mut alone: Vec<Vec<Option<CallResult>>> = vec![];
  for (ti, t) in tasks.iter().enumerate() {
    let mut row = vec![];
    for (ci, c) in t.iter().enumerate() {
      match &inputs[ti][ci] {
        Some(input) => {
          let r = do_call(&alone_eval[&c.model], &c.invocable, input);
          if r.is_err() {
            out.counters.inc("alone.call_panics");
          }
          row.push(Some(r));
        }
        None => {
          out.counters.inc("alone.input_context_invalid");
          row.push(None);
        }
      }
    }
    alone.push(row);
  }
  // repeat alone once more: a call whose alone result is not repeatable is outside this oracle
  for (ti, t) in tasks.iter().enumerate() {
    for (ci, c) in t.iter().enumerate() {
      if let (Some(input), Some(Ok(first))) = (&inputs[ti][ci], &alone[ti][ci]) {
        let again = do_call(&alone_eval[&c.model], &c.invocable, input);
        if again.as_ref().ok() != Some(first) {
          out.counters.inc("alone.not_repeatable");
          alone[ti][ci] = None;
        }
      }
    }
  }
  let alone_work = simrt::points_total() + (dmntk_verif_sync::stats().ops_any_mode.saturating_sub(ops_before));
  Some((alone, alone_work))
}

fn viol(rule: &str, site: &str, idx: u64, expected: String, observed: String) -> Violation {
  Violation::new(rule, format!("C20:{}:{}", rule, site), idx, expected, observed)
}

fn registries_poisoned(me: &ModelEvaluator) -> Vec<&'static str> {
  let mut out = vec![];
  if me.input_data_evaluator().is_err() {
    out.push("input_data_evaluator");
  }
  if me.input_data_context_evaluator().is_err() {
    out.push("input_data_context_evaluator");
  }
  if me.item_definition_evaluator().is_err() {
    out.push("item_definition_evaluator");
  }
  if me.item_definition_context_evaluator().is_err() {
    out.push("item_definition_context_evaluator");
  }
  if me.item_definition_type_evaluator().is_err() {
    out.push("item_definition_type_evaluator");
  }
  if me.business_knowledge_model_evaluator().is_err() {
    out.push("business_knowledge_model_evaluator");
  }
  if me.decision_evaluator().is_err() {
    out.push("decision_evaluator");
  }
  if me.decision_service_evaluator().is_err() {
    out.push("decision_service_evaluator");
  }
  out
}

struct Shared {
  /// results[task][call]
  results: Mutex<Vec<Vec<Option<CallResult>>>>,
  crashed_tasks: Mutex<Vec<usize>>,
  poisoned: Mutex<Vec<String>>,
  final_results: Mutex<Vec<(usize, usize, CallResult)>>,
  build_failed: Mutex<Option<String>>,
}

impl C20 {
  fn exec_inner(&self, plan: &Value, mode: &ExecMode, allow_random_recheck: bool) -> Outcome {
    let mut out = Outcome::default();
    simrt::install();
    let tasks: Vec<Vec<Call>> = parr(plan, "tasks").iter().map(|t| t.as_array().map(|a| a.iter().map(call_from).collect()).unwrap_or_default()).collect();
    let kind = Kind::from_json(plan.get("sched").unwrap_or(&Value::Null));
    let plan_seed = pu64(plan.get("sched").unwrap_or(&Value::Null), "seed");
    // definitions
    let mut defs: BTreeMap<String, Arc<Definitions>> = BTreeMap::new();
    for t in &tasks {
      for c in t {
        if !defs.contains_key(&c.model) {
          match definitions(&c.model) {
            Some(d) => {
              defs.insert(c.model.clone(), d);
            }
            None => {
              // the model does not parse on this tree: nothing to evaluate, C12's business
              out.counters.inc("skipped.model_does_not_parse");
              return out;
            }
          }
        }
      }
    }
    // inputs
    let mut inputs: Vec<Vec<Option<FeelContext>>> = vec![];
    for t in &tasks {
      let mut row = vec![];
      for c in t {
        let ctx = catch_unwind(|| dmntk_feel_evaluator::evaluate_context(&Scope::default(), &c.ctx)).ok().and_then(|r| r.ok());
        row.push(ctx);
      }
      inputs.push(row);
    }
    // ---- alone phase: every call on a separately built evaluator, sequentially, shim in pass-through.
    // In a *cold* execution it comes after the concurrent phase: whatever the process keeps between calls
    // outside the evaluator (a process-wide cache, say) is then met by the concurrent calls first.
    let cold = pbool(plan, "cold");
    let warmup = pu64(plan, "warmup");
    let n_calls_total: u64 = tasks.iter().map(|t| t.len() as u64).sum();
    let mut alone_state: Option<(Vec<Vec<Option<CallResult>>>, u64)> = None;
    if !cold {
      match alone_phase(&tasks, &inputs, &defs, &mut out) {
        Some(x) => alone_state = Some(x),
        None => return out,
      }
    }
    let max_steps = match &alone_state {
      // the warm-up calls pass scheduling points too (one runnable task: no decisions, but steps)
      Some((_, alone_work)) => (200_000 + 40 * alone_work + 4 * warmup * (alone_work / (2 * n_calls_total).max(1) + 8)) as usize,
      None => (3_000_000 + 2_000 * warmup) as usize,
    };
    // ---- concurrent phase
    let crash = plan.get("crash").filter(|v| !v.is_null()).map(|v| (pu64(v, "task") as usize + 1, pu64(v, "at")));
    let stall = plan.get("stall").filter(|v| !v.is_null()).map(|v| (pu64(v, "task") as usize + 1, pu64(v, "at"), pu64(v, "len")));
    simrt::reset_points(PointFaults { crash, stall });
    dmntk_verif_sync::reset_stats();
    let shared = Arc::new(Shared {
      results: Mutex::new(tasks.iter().map(|t| vec![None; t.len()]).collect()),
      crashed_tasks: Mutex::new(vec![]),
      poisoned: Mutex::new(vec![]),
      final_results: Mutex::new(vec![]),
      build_failed: Mutex::new(None),
    });
    let tasks_arc = Arc::new(tasks.clone());
    let inputs_arc = Arc::new(inputs.clone());
    let defs_arc = Arc::new(defs.clone());
    let handover = pbool(plan, "handover");
    let base = pu64(plan, "base");
    let sh = Arc::clone(&shared);
    simrt::trace_begin();
    let report = simrt::run_scheduled(&kind, plan_seed, mode, max_steps, move || {
      // the build itself runs under the scheduler
      let mut evals: BTreeMap<String, Arc<ModelEvaluator>> = BTreeMap::new();
      for (m, d) in defs_arc.iter() {
        match catch_unwind(AssertUnwindSafe(|| ModelEvaluator::new(d))) {
          Ok(Ok(me)) => {
            evals.insert(m.clone(), me);
          }
          Ok(Err(e)) => {
            *sh.build_failed.lock().unwrap() = Some(format!("{}", e));
            return;
          }
          Err(_) => {
            *sh.build_failed.lock().unwrap() = Some(format!("panic {}", take_last_panic()));
            dmntk_verif_sync::flush();
            return;
          }
        }
      }
      let evals = Arc::new(evals);
      if warmup > 0 {
        let order: Vec<(usize, usize)> = tasks_arc.iter().enumerate().flat_map(|(ti, t)| (0..t.len()).map(move |ci| (ti, ci))).collect();
        for i in 0..if order.is_empty() { 0 } else { warmup as usize } {
          let (ti, ci) = order[i % order.len()];
          if let Some(input) = &inputs_arc[ti][ci] {
            let c = &tasks_arc[ti][ci];
            // every second warm-up call of the simulator's own model has an input of its own, so that state
            // keyed by the input (caches with a bound, say) fills up and turns over
            let own = if c.model == "gen" && i % 2 == 1 {
              let u = 100_000 + base + i as u64;
              let text = if c.invocable == "label" { format!("{{n: {}, t: \"wu{}_1\"}}", u, u) } else { format!("{{x: {}, s: \"wu{}_1\"}}", u, u) };
              catch_unwind(|| dmntk_feel_evaluator::evaluate_context(&Scope::default(), &text)).ok().and_then(|r| r.ok())
            } else {
              None
            };
            let _ = do_call(&evals[&c.model], &c.invocable, own.as_ref().unwrap_or(input));
            dmntk_verif_sync::flush();
          }
        }
      }
      let mut handles = vec![];
      for ti in 0..tasks_arc.len() {
        let evals = Arc::clone(&evals);
        let tasks = Arc::clone(&tasks_arc);
        let inputs = Arc::clone(&inputs_arc);
        let sh = Arc::clone(&sh);
        let body = move || {
          for (ci, c) in tasks[ti].iter().enumerate() {
            let input = match &inputs[ti][ci] {
              Some(i) => i,
              None => continue,
            };
            let r = do_call(&evals[&c.model], &c.invocable, input);
            dmntk_verif_sync::flush();
            let crashed = matches!(&r, Err(rec) if rec.contains(INJECTED_CRASH));
            simrt::trace_note(&format!("t{} c{} {:?}", ti, ci, r));
            sh.results.lock().unwrap()[ti][ci] = Some(r);
            if crashed {
              // the simulated thread died here: its remaining calls never happen
              sh.crashed_tasks.lock().unwrap().push(ti);
              return;
            }
          }
        };
        if handover {
          // strictly one after another (reaches lazily initialised and per-thread state)
          let h = shuttle::thread::spawn(body);
          let _ = h.join();
        } else {
          handles.push(shuttle::thread::spawn(body));
        }
      }
      for h in handles {
        let _ = h.join();
      }
      // after the tasks joined: registries unpoisoned, a final sequential call returns its alone value
      for (m, me) in evals.iter() {
        for p in registries_poisoned(me) {
          sh.poisoned.lock().unwrap().push(format!("{}:{}", m, p));
        }
      }
      for (ti, t) in tasks_arc.iter().enumerate() {
        if let Some(c) = t.first() {
          if let Some(input) = &inputs_arc[ti][0] {
            let r = do_call(&evals[&c.model], &c.invocable, input);
            dmntk_verif_sync::flush();
            sh.final_results.lock().unwrap().push((ti, 0, r));
          }
        }
      }
    });
    let (trace_hash, trace_events, trace_switches) = simrt::trace_end();
    let stats = dmntk_verif_sync::stats();
    let (crash_fired, stall_fired) = simrt::fault_report();
    // ---- evidence counters
    let n_tasks = tasks.len() as u64;
    let n_calls: u64 = tasks.iter().map(|t| t.len() as u64).sum();
    out.counters.inc("executions");
    out.counters.add("tasks", n_tasks);
    out.counters.add("calls", n_calls);
    out.counters.add("scheduler.steps", report.recording.steps.len() as u64);
    out.counters.add("scheduler.context_switches", report.switches);
    out.counters.add("lock.reads", stats.reads);
    out.counters.add("lock.writes", stats.writes);
    out.counters.add("lock.mutex_locks", stats.mutex_locks);
    out.counters.add("lock.blocked", stats.blocked);
    out.counters.add("lock.reentrant_reads", stats.reentrant_reads);
    out.counters.max("max.read_lock_nesting", stats.max_read_nesting);
    out.counters.max("max.tasks", n_tasks);
    out.counters.add("trace.events", trace_events);
    out.counters.inc(&format!("scheduler.kind.{}", match &kind { Kind::Random => "random".to_string(), Kind::Pct(d) => format!("pct{}", d), Kind::Urw => "urw".to_string() }));
    if crash_fired {
      out.counters.inc("fault.thread_crash_fired");
    }
    if stall_fired {
      out.counters.inc("fault.stall_fired");
    }
    if handover {
      out.counters.inc("mode.handover");
    }
    if let Some(f) = plan.get("family").and_then(|f| f.as_str()) {
      out.counters.inc(&format!("mode.family.{}", f));
    }
    if pu64(plan, "base") > 0 {
      out.counters.inc("mode.inputs_from_a_base_of_the_execution");
    }
    if warmup > 0 {
      out.counters.inc("mode.soak");
      out.counters.add("soak.warmup_calls", warmup);
      out.counters.max("max.soak_warmup_calls", warmup);
    }
    out.log_hash = {
      let mut h = Hasher::default();
      h.u64(trace_hash);
      h.str(&format!("{:?}", report.failure));
      h.finish()
    };
    if trace_switches > 0 && !handover {
      out.distinct_keys.push(trace_hash);
    }
    out.schedule = Some(report.schedule_json(&kind, simrt::scheduler_seed(plan_seed, mode)));
    if report.diverged {
      out.harness_error = Some("replay diverged: a recorded task was not runnable (a source of nondeterminism is not behind a seam)".to_string());
      return out;
    }
    // ---- oracle
    if let Some(f) = &report.failure {
      match f {
        SchedFailure::Deadlock(msg) => {
          out.violation = Some(viol("deadlock", "all-tasks-blocked", report.recording.steps.len() as u64, "concurrent evaluation never deadlocks".into(), msg.chars().take(300).collect()));
          return out;
        }
        SchedFailure::StepBound => {
          // PCT and URW are unfair by design; a spin loop that is fine under a fair scheduler must
          // not alarm. Re-run under the (probabilistically fair) random scheduler before reporting.
          if kind != Kind::Random && allow_random_recheck {
            out.counters.inc("inconclusive.step_bound_under_unfair_scheduler");
            let mut p2 = plan.clone();
            p2["sched"] = json!({"kind": "random", "seed": plan_seed});
            let mut o2 = self.exec_inner(&p2, &ExecMode::Fresh, false);
            o2.counters.merge(&out.counters);
            if o2.violation.is_none() {
              return o2;
            }
            // the violation is real under the fair scheduler, but the replay file holds the original
            // plan: report it as found, with the original plan's schedule
          }
          out.violation = Some(viol("no-progress", "step-bound-exhausted", max_steps as u64, format!("all tasks finish within {} scheduling steps (40x the work of the same calls alone + 200000)", max_steps), "step bound exhausted".into()));
          return out;
        }
        SchedFailure::Panic(msg) => {
          out.violation = Some(viol("escaped-panic", &panic_site(msg), 0, "no panic escapes a simulated thread".into(), msg.chars().take(300).collect()));
          return out;
        }
      }
    }
    if cold {
      out.counters.inc("mode.cold");
      match alone_phase(&tasks, &inputs, &defs, &mut out) {
        Some(x) => alone_state = Some(x),
        None => return out,
      }
    }
    if let Some(e) = shared.build_failed.lock().unwrap().clone() {
      out.violation = Some(viol("build-under-scheduler", "build-fails-only-under-scheduler", 0, "the evaluator that built alone builds under the scheduler".into(), e));
      return out;
    }
    let alone = match alone_state {
      Some((a, _)) => a,
      None => return out,
    };
    let results = shared.results.lock().unwrap().clone();
    let crashed = shared.crashed_tasks.lock().unwrap().clone();
    let mut event = 0u64;
    for (ti, t) in tasks.iter().enumerate() {
      for (ci, c) in t.iter().enumerate() {
        event += 1;
        let want = match &alone[ti][ci] {
          Some(Ok(w)) => w,
          _ => continue, // alone it panicked or is not repeatable: not this oracle's business
        };
        match &results[ti][ci] {
          Some(Ok(got)) => {
            out.counters.inc("calls.compared");
            if got != want {
              out.violation = Some(viol(
                "value-differs-from-alone",
                &format!("{}/{}", c.model, c.invocable),
                event,
                format!("task {} call {} ({} / {} on {}) returns what it returned alone: {}", ti, ci, c.model, c.invocable, c.ctx, want),
                got.clone(),
              ));
              return out;
            }
          }
          Some(Err(rec)) if rec.contains(INJECTED_CRASH) => {
            out.counters.inc("calls.crashed_by_fault");
          }
          Some(Err(rec)) => {
            out.violation = Some(viol("panic-under-concurrency", &panic_site(rec), event, format!("task {} call {} ({} / {}) returns {} as it did alone", ti, ci, c.model, c.invocable, want), format!("panic at {}", rec)));
            return out;
          }
          None => {
            if !crashed.contains(&ti) {
              out.violation = Some(viol("call-missing", "task-did-not-finish", event, format!("task {} performs call {}", ti, ci), "no result recorded".into()));
              return out;
            }
          }
        }
      }
    }
    let poisoned = shared.poisoned.lock().unwrap().clone();
    if !poisoned.is_empty() {
      out.violation = Some(viol("lock-poisoned", &poisoned[0].split(':').last().unwrap_or("?").to_string(), event + 1, "no registry lock is poisoned after the threads finished".into(), format!("{:?}", poisoned)));
      return out;
    }
    for (ti, ci, r) in shared.final_results.lock().unwrap().iter() {
      if let Some(Ok(want)) = &alone[*ti][*ci] {
        match r {
          Ok(got) if got == want => {}
          Ok(got) => {
            out.violation = Some(viol("final-call-differs", &format!("{}/{}", tasks[*ti][*ci].model, tasks[*ti][*ci].invocable), event + 2, want.clone(), got.clone()));
            return out;
          }
          Err(rec) => {
            out.violation = Some(viol("final-call-panics", &panic_site(rec), event + 2, want.clone(), format!("panic at {}", rec)));
            return out;
          }
        }
      }
    }
    out
  }
}

impl Sim for C20 {
  fn id(&self) -> &'static str {
    "C20"
  }
  fn level(&self) -> &'static str {
    "exploration"
  }
  fn runs(&self, tier: Tier) -> u64 {
    match tier {
      Tier::Quick => 60_000,
      Tier::Thorough => 1_500_000,
    }
  }
  fn block(&self, tier: Tier) -> u64 {
    match tier {
      Tier::Quick => 100,
      Tier::Thorough => 500,
    }
  }
  fn watchdog_ms(&self) -> u64 {
    60_000
  }
  fn child_setup(&self) {
    let _ = setup();
    simrt::install();
  }
  fn gen_plan(&self, seed: u64, run: u64, tier: Tier) -> Value {
    let s = setup();
    let mut rng = Rng::new(derive(seed, "C20", run));
    // 1..3 models per execution; the simulator's own model is in every third plan
    // a soak execution: the shared evaluator has served many calls before the tasks start, so that
    // whatever happens every N-th call (sampling, cache eviction, a counter wrapping) happens while they
    // run. Only on the simulator's own model, whose decisions are cheap.
    let soak = rng.chance(1, 25);
    // a family execution: every call is drawn from ONE of the families the property names (regular expressions,
    // numbers, temporal values, decision tables) of the simulator's own model - what calls of one family share
    // outside the evaluator (compiled patterns, contexts of the decimal library, zone tables) is then under load
    // from every task at once
    const FAMILIES: [&[&str]; 4] = [&["rx2", "rx2", "rx2", "rx", "c4"], &["num", "c1", "tbl", "misc"], &["tmp", "misc"], &["tp", "to", "tr", "tcnt", "tmin", "tdef", "tany", "tfirst", "tp2", "to2", "tu2", "tany2", "tbl"]];
    let family_index = if !soak && rng.chance(1, 5) { Some(rng.index(4)) } else { None };
    // experiments only (never set by the registered commands): every execution is of one family
    let family_index = match std::env::var("VERIF_C20_FORCE_FAMILY").ok().and_then(|v| v.parse::<usize>().ok()) {
      Some(i) if !soak => Some(i % 4),
      _ => family_index,
    };
    let family: Option<&[&str]> = family_index.map(|i| FAMILIES[i]);
    let gen_only = soak || family.is_some();
    let n_models = if gen_only { 1 } else { 1 + rng.index(3) };
    let mut models: Vec<String> = vec![];
    for _ in 0..n_models {
      if gen_only {
        models.push("gen".to_string());
        break;
      }
      // a model is drawn through a random workload row half of the time, so models with many invocables and
      // inputs (the lending example, the decision service and built-in function suites) come up more often
      let m = if rng.chance(1, 3) {
        "gen".to_string()
      } else if rng.chance(1, 10) {
        "deep".to_string()
      } else if rng.chance(1, 2) {
        s.rows[rng.index(s.rows.len())].model.clone()
      } else {
        rng.pick(&s.models).clone()
      };
      if !models.contains(&m) {
        models.push(m);
      }
    }
    let max_tasks = match tier {
      Tier::Quick => 8,
      Tier::Thorough => 16,
    };
    let n_tasks = if family.is_some() {
      4 + rng.index(5)
    } else if rng.chance(3, 4) {
      2 + rng.index(3)
    } else {
      2 + rng.index(max_tasks - 1)
    };
    // the values unique to (task, call) start at a base of the execution's own in half of the executions: what the
    // process keeps across executions under a key taken from the input never meets the same key twice
    let base: u64 = if rng.chance(1, 2) { 0 } else { 20 * (1 + rng.below(40_000)) };
    let mut tasks = vec![];
    for ti in 0..n_tasks {
      let n_calls = 1 + rng.index(if n_tasks > 8 { 3 } else { 6 });
      let mut calls = vec![];
      for ci in 0..n_calls {
        let m = rng.pick(&models).clone();
        let row = match family {
          Some(f) => {
            let inv = *rng.pick(f);
            s.rows.iter().find(|r| r.model == "gen" && r.invocable == inv).unwrap_or(&s.rows[*rng.pick(&s.by_model[&m])])
          }
          None => &s.rows[*rng.pick(&s.by_model[&m])],
        };
        let unique = base + (ti as u64) * 100 + ci as u64 + 11;
        let ctx = if m == "gen" || m == "deep" {
          if row.invocable == "label" {
            format!("{{n: {}, t: \"ab{}_{}\"}}", unique, unique, ci)
          } else {
            format!("{{x: {}, s: \"ab{}_{}\"}}", unique, unique, ci)
          }
        } else if rng.chance(1, 2) {
          fill_hole(&mut rng, &row.ctx, unique)
        } else {
          row.ctx.clone()
        };
        // error paths: an input of the wrong kind, no input at all
        let ctx = if rng.chance(1, 12) {
          match rng.index(3) {
            0 => "{}".to_string(),
            1 => format!("{{x: \"text {}\", s: {}, n: true, t: [{}]}}", unique, unique, unique),
            _ => format!("{{x: null, s: null, Full Name: {}, Loan: \"none {}\"}}", unique, unique),
          }
        } else {
          ctx
        };
        calls.push(json!({"model": m, "invocable": row.invocable, "ctx": ctx}));
      }
      tasks.push(Value::Array(calls));
    }
    // inputs are unique per call so far; some executions repeat calls - the same (invocable, input) again in
    // the same task and in other tasks - so that state keyed by the input is met again by its owner and
    // by others at the same time
    if rng.chance(1, 3) {
      let all: Vec<Value> = tasks.iter().flat_map(|t| t.as_array().cloned().unwrap_or_default()).collect();
      for t in tasks.iter_mut() {
        if let Some(calls) = t.as_array_mut() {
          for c in calls.iter_mut() {
            if rng.chance(1, 2) {
              *c = rng.pick(&all).clone();
            }
          }
          if rng.chance(1, 2) && !calls.is_empty() && calls.len() < 8 {
            // the same call twice in a row
            let again = calls[rng.index(calls.len())].clone();
            calls.push(again.clone());
            calls.push(again);
          }
        }
      }
    }
    // a hot invocable: every task calls the SAME invocable several times in a row, each task with an input
    // of its own - what the invocable keeps between calls is met by its owner again while the others write it
    if rng.chance(1, 6) {
      let all: Vec<Value> = tasks.iter().flat_map(|t| t.as_array().cloned().unwrap_or_default()).collect();
      if !all.is_empty() {
        let hot = rng.pick(&all).clone();
        let hot_row = s.rows.iter().find(|r| r.model == pstr(&hot, "model") && r.invocable == pstr(&hot, "invocable"));
        for (ti, t) in tasks.iter_mut().enumerate() {
          let unique = base + (ti as u64) * 100 + 11;
          let ctx = if pstr(&hot, "model") == "gen" || pstr(&hot, "model") == "deep" {
            if pstr(&hot, "invocable") == "label" {
              format!("{{n: {}, t: \"ab{}_0\"}}", unique, unique)
            } else {
              format!("{{x: {}, s: \"ab{}_0\"}}", unique, unique)
            }
          } else if let Some(row) = hot_row {
            fill_hole(&mut rng, &row.ctx, unique)
          } else {
            pstr(&hot, "ctx").to_string()
          };
          let n = 2 + rng.index(3);
          *t = Value::Array((0..n).map(|_| json!({"model": pstr(&hot, "model"), "invocable": pstr(&hot, "invocable"), "ctx": ctx})).collect());
        }
      }
    }
    let kind = match rng.index(8) {
      0..=2 => json!({"kind": "random"}),
      3 | 4 if family.is_some() => json!({"kind": "random"}),
      3..=6 => json!({"kind": "pct", "depth": 1 + rng.index(5)}),
      _ => json!({"kind": "urw"}),
    };
    let mut sched = kind;
    sched["seed"] = json!(rng.next_u64() >> 1);
    // most calls pass only a handful of scheduling points: aim low, sometimes high
    let at = |rng: &mut Rng| if rng.chance(3, 4) { 1 + rng.below(8) } else { 1 + rng.below(120) };
    let crash = if rng.chance(1, 5) { json!({"task": rng.index(n_tasks), "at": at(&mut rng)}) } else { Value::Null };
    let stall = if rng.chance(1, 4) { json!({"task": rng.index(n_tasks), "at": at(&mut rng), "len": 5 + rng.below(60)}) } else { Value::Null };
    let handover = rng.chance(1, 20);
    let warmup = if soak {
      let total: u64 = tasks.iter().map(|t| t.as_array().map(|a| a.len() as u64).unwrap_or(0)).sum();
      let threshold = *rng.pick(&[16u64, 32, 50, 64, 100, 128, 200, 256, 500, 512, 1000, 1000, 1024, 1024, 2048, 4096]);
      // the threshold-th call is one of the concurrent ones
      threshold.saturating_sub(1 + rng.below(total.max(1)))
    } else if family.is_some() {
      // a bounded store shared by the calls of the family is at an arbitrary fill level when the tasks start
      rng.below(160)
    } else {
      0
    };
    // a cold execution: the calls are made alone AFTER the concurrent phase (see `exec_inner`)
    let cold = rng.chance(1, 3);
    json!({"tasks": tasks, "sched": sched, "crash": crash, "stall": stall, "handover": handover, "warmup": warmup, "base": base, "cold": cold, "family": family_index.map(|i| ["regex", "numeric", "temporal", "tables"][i])})
  }
  fn exec(&self, plan: &Value, mode: &ExecMode) -> Outcome {
    self.exec_inner(plan, mode, true)
  }
  fn shrink(&self, plan: &Value) -> Vec<Value> {
    let mut out = vec![];
    let tasks = parr(plan, "tasks");
    // drop the faults
    for key in ["crash", "stall"] {
      if plan.get(key).map(|v| !v.is_null()).unwrap_or(false) {
        let mut p = plan.clone();
        p[key] = Value::Null;
        out.push(p);
      }
    }
    // drop a task
    if tasks.len() > 1 {
      for i in 0..tasks.len() {
        let mut p = plan.clone();
        p["tasks"].as_array_mut().unwrap().remove(i);
        // keep fault task indexes meaningful
        for key in ["crash", "stall"] {
          if let Some(t) = p[key].get("task").and_then(|t| t.as_u64()) {
            if t as usize == i {
              p[key] = Value::Null;
            } else if t as usize > i {
              p[key]["task"] = json!(t - 1);
            }
          }
        }
        out.push(p);
      }
    }
    // drop a call
    for (i, t) in tasks.iter().enumerate() {
      let calls = t.as_array().map(|a| a.len()).unwrap_or(0);
      if calls > 1 {
        for j in 0..calls {
          let mut p = plan.clone();
          p["tasks"][i].as_array_mut().unwrap().remove(j);
          out.push(p);
        }
      }
    }
    // simpler scheduler
    if pstr(&plan["sched"], "kind") != "random" {
      let mut p = plan.clone();
      p["sched"]["kind"] = json!("random");
      out.push(p);
    }
    out
  }
  fn reseeds_when_shrinking(&self) -> u64 {
    24
  }
  fn rule_text(&self) -> String {
    "each run = one shuttle execution: 2..8 (quick) / 2..16 (thorough) simulated threads, 1..6 evaluate_invocable calls each, against evaluators of 1..3 models (113 example models with the inputs of their compliance tests, holes filled with values unique to (thread, call), plus the simulator's numeric/temporal/regex/table/requirement-chain model) built under the scheduler and shared through Arc; scheduler = seeded random / PCT depth 1..5 / URW chosen per run; faults: bounded stall and thread crash at the k-th Scope::push/pop of a thread; distinct = distinct hashes of the trace of (event kind, lock, task) over all lock operations and scheduling points; non-trivial = the trace contains at least one switch between two threads".to_string()
  }
  fn assumptions(&self) -> Vec<String> {
    vec![
      "scheduling points are the operations of RwLock/Mutex anywhere in the dmntk crates (the simulator builds a mirror of the working tree in which std::sync is replaced by a std-compatible module) and Scope::push/pop (hook H5); plain memory accesses, atomics, the C decimal library and third-party crates are not preemption points, so data races on unsynchronised memory are invisible".to_string(),
      "the lock model is the futex RwLock of Linux std: writer preference, a re-entrant read blocks when a writer is queued".to_string(),
      "the oracle compares every concurrent call with the same call made alone on a separately built evaluator; it knows nothing about right values".to_string(),
      "std thread_local storage is shared by all simulated threads (they run on one OS thread)".to_string(),
    ]
  }
  fn real_stub(&self) -> Value {
    json!({"real": ["dmntk-model-evaluator", "dmntk-feel-evaluator", "dmntk-feel", "dmntk-feel-number + decNumber C code", "regex, chrono, chrono-tz"], "stub": ["OS scheduler -> shuttle (random/PCT/URW), recorded and replayable", "std::sync::RwLock / Mutex -> dmntk-verif-sync (futex RwLock model, re-entrant reads)"]})
  }
  fn expected_probes(&self) -> Vec<&'static str> {
    vec!["lock.reentrant_reads", "fault.thread_crash_fired", "fault.stall_fired", "scheduler.context_switches", "mode.handover", "calls.compared"]
  }
}
