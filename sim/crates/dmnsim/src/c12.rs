//! C12 - loading any model text yields a usable model or an error, never a crash.
//!
//! Fault injection on the stored / transmitted model text: every single structural fault at every
//! position of every example model (enumerated), seeded pairs of them, and seeded storage faults
//! (torn, lost, flipped, dropped / duplicated / swapped / misdirected blocks, invalid UTF-8), driven
//! through parse -> build -> evaluate every invocable, in crash-isolated children on an 8 MiB
//! stack under a watchdog; a seeded part also through the system paths (directory load of a
//! workspace, and add / deploy / evaluate through the in-process HTTP service), after which a
//! known-good model must still deploy and evaluate and the lock must not be poisoned.

use crate::c20::{data_dir, model_text, repo_dir};
use crate::core::*;
use crate::driver::{panic_site, scratch_dir, take_last_panic};
use crate::http::{build_app, make_request, percent_encode, poll_call, BodyState, PollResult};
use crate::jsonval::parse_strict;
use crate::models::*;
use crate::rng::{derive, Hasher, Rng};
use dmntk_feel::context::FeelContext;
use dmntk_feel::Scope;
use dmntk_model::model::{NamedElement, RequiredVariable};
use dmntk_model_evaluator::ModelEvaluator;
use dmntk_server::VerifAppData;
use dmntk_workspace::Workspace;
use serde_json::{json, Value};
use std::cell::RefCell;
use std::collections::BTreeMap;
use std::panic::{catch_unwind, AssertUnwindSafe};
use std::rc::Rc;
use std::sync::{Arc, Mutex, OnceLock};

pub struct C12;

// ------------------------------------------------------------------------------------------------
// catalogue of fault positions
// ------------------------------------------------------------------------------------------------

#[derive(Clone, Debug)]
struct ElemPos {
  start: usize,
  end: usize,
  tag: String,
  /// Byte range of the next sibling element, if any.
  next_sibling: Option<(usize, usize)>,
  has_content: bool,
  /// Range between the end of the start tag and the start of the end tag (for emptying).
  inner: Option<(usize, usize)>,
}

#[derive(Clone, Debug)]
struct AttrPos {
  start: usize,
  end: usize,
  vstart: usize,
  vend: usize,
  name: String,
  owner_tag: String,
  /// Value range of the next attribute of the same element.
  next_value: Option<(usize, usize)>,
}

#[derive(Clone, Debug)]
struct TextPos {
  start: usize,
  end: usize,
  parent_tag: String,
  /// Range of the next text node under a parent of the same tag.
  next_same_kind: Option<(usize, usize)>,
}

#[derive(Clone, Debug)]
struct HrefPos {
  vstart: usize,
  vend: usize,
  owner_tag: String,
  elem_tag: String,
  own_id: Option<String>,
  /// Ids of elements that require the owner within three steps.
  ancestors: Vec<String>,
}

#[derive(Clone, Debug)]
struct TypeRefPos {
  start: usize,
  end: usize,
  own_name: String,
  referrers: Vec<String>,
}

#[derive(Clone, Debug, Default)]
struct Catalogue {
  text: String,
  elems: Vec<ElemPos>,
  attrs: Vec<AttrPos>,
  texts: Vec<TextPos>,
  hrefs: Vec<HrefPos>,
  typerefs: Vec<TypeRefPos>,
}

const OWNER_TAGS: [&str; 5] = ["decision", "businessKnowledgeModel", "decisionService", "inputData", "knowledgeSource"];

fn owner_of<'a, 'i>(n: roxmltree::Node<'a, 'i>) -> Option<roxmltree::Node<'a, 'i>> {
  n.ancestors().find(|a| a.is_element() && OWNER_TAGS.contains(&a.tag_name().name()) && a.attribute("id").is_some())
}

fn top_idef(n: roxmltree::Node) -> Option<String> {
  n.ancestors().filter(|a| a.is_element() && a.tag_name().name() == "itemDefinition").last().and_then(|a| a.attribute("name").map(|s| s.to_string()))
}

fn catalogue_of(text: &str) -> Catalogue {
  let mut cat = Catalogue { text: text.to_string(), ..Default::default() };
  let doc = match roxmltree::Document::parse(text) {
    Ok(d) => d,
    Err(_) => return cat,
  };
  // requirement graph: owner id -> target ids
  let mut edges: Vec<(String, String)> = vec![];
  for n in doc.descendants().filter(|n| n.is_element()) {
    if let Some(h) = n.attribute("href") {
      if let Some(o) = owner_of(n) {
        edges.push((o.attribute("id").unwrap_or("").to_string(), h.trim_start_matches('#').to_string()));
      }
    }
  }
  let requirers_of = |id: &str| -> Vec<String> {
    // elements that reach `id` within three requirement steps
    let mut out: Vec<String> = vec![];
    let mut frontier = vec![id.to_string()];
    for _ in 0..3 {
      let mut next = vec![];
      for (from, to) in &edges {
        if frontier.contains(to) && from != id && !out.contains(from) {
          out.push(from.clone());
          next.push(from.clone());
        }
      }
      frontier = next;
    }
    out.truncate(6);
    out
  };
  // item definition references: name -> names it refers to
  let mut idef_refs: Vec<(String, String)> = vec![];
  for n in doc.descendants().filter(|n| n.is_element() && n.tag_name().name() == "typeRef") {
    if let (Some(top), Some(t)) = (top_idef(n), n.text()) {
      idef_refs.push((top, t.trim().to_string()));
    }
  }
  for n in doc.descendants() {
    if n.is_element() {
      let r = n.range();
      let tag = n.tag_name().name().to_string();
      let next_sibling = n.next_siblings().skip(1).find(|s| s.is_element()).map(|s| (s.range().start, s.range().end));
      let first = n.first_child().map(|c| c.range().start);
      let last = n.last_child().map(|c| c.range().end);
      let inner = match (first, last) {
        (Some(a), Some(b)) if b > a => Some((a, b)),
        _ => None,
      };
      if n.parent().map(|p| p.is_element()).unwrap_or(false) {
        cat.elems.push(ElemPos {
          start: r.start,
          end: r.end,
          tag: tag.clone(),
          next_sibling,
          has_content: inner.is_some(),
          inner,
        });
      }
      let attrs = n.attributes();
      for (i, a) in attrs.iter().enumerate() {
        let ar = a.range();
        let vr = a.value_range();
        cat.attrs.push(AttrPos {
          start: ar.start,
          end: ar.end,
          vstart: vr.start,
          vend: vr.end,
          name: a.name().to_string(),
          owner_tag: tag.clone(),
          next_value: attrs.get(i + 1).map(|b| (b.value_range().start, b.value_range().end)),
        });
        if a.name() == "href" {
          let owner = owner_of(n);
          let own_id = owner.and_then(|o| o.attribute("id").map(|s| s.to_string()));
          cat.hrefs.push(HrefPos {
            vstart: vr.start,
            vend: vr.end,
            owner_tag: owner.map(|o| o.tag_name().name().to_string()).unwrap_or_default(),
            elem_tag: tag.clone(),
            ancestors: own_id.as_deref().map(|id| requirers_of(id)).unwrap_or_default(),
            own_id,
          });
        }
      }
      if tag == "typeRef" {
        if let (Some(top), Some(tn)) = (top_idef(n), n.first_child().filter(|c| c.is_text())) {
          let referrers: Vec<String> = idef_refs.iter().filter(|(from, to)| *to == top && *from != top).map(|(from, _)| from.clone()).take(4).collect();
          cat.typerefs.push(TypeRefPos {
            start: tn.range().start,
            end: tn.range().end,
            own_name: top,
            referrers,
          });
        }
      }
    } else if n.is_text() {
      let t = n.text().unwrap_or("");
      if t.trim().is_empty() {
        continue;
      }
      let parent_tag = n.parent().map(|p| p.tag_name().name().to_string()).unwrap_or_default();
      cat.texts.push(TextPos {
        start: n.range().start,
        end: n.range().end,
        parent_tag,
        next_same_kind: None,
      });
    }
  }
  // next text node of the same parent kind
  for i in 0..cat.texts.len() {
    let tag = cat.texts[i].parent_tag.clone();
    if let Some(j) = (i + 1..cat.texts.len()).find(|j| cat.texts[*j].parent_tag == tag) {
      cat.texts[i].next_same_kind = Some((cat.texts[j].start, cat.texts[j].end));
    }
  }
  cat
}

/// The base texts: every .dmn file under examples/src of the working tree, the simulator's own model
/// and two alphabet models.
fn base_list() -> &'static Vec<String> {
  static LIST: OnceLock<Vec<String>> = OnceLock::new();
  LIST.get_or_init(|| {
    let mut out = vec![];
    let root = format!("{}/examples/src", repo_dir());
    let mut stack = vec![std::path::PathBuf::from(&root)];
    while let Some(dir) = stack.pop() {
      if let Ok(rd) = std::fs::read_dir(&dir) {
        let mut entries: Vec<_> = rd.filter_map(|e| e.ok()).map(|e| e.path()).collect();
        entries.sort();
        for p in entries {
          if p.is_dir() {
            stack.push(p);
          } else if p.extension().map(|e| e == "dmn").unwrap_or(false) {
            if let Ok(rel) = p.strip_prefix(&root) {
              out.push(rel.to_string_lossy().to_string());
            }
          }
        }
      }
    }
    out.sort();
    out.push("gen".to_string());
    out.push("alpha:A1".to_string());
    out.push("alpha:F".to_string());
    // valid but degenerate constructs no shipped example has (tools/gen_edge_models.py)
    if let Ok(rd) = std::fs::read_dir(data_dir().join("edge")) {
      let mut names: Vec<String> = rd.filter_map(|e| e.ok()).map(|e| e.file_name().to_string_lossy().to_string()).filter(|n| n.ends_with(".dmn")).collect();
      names.sort();
      for n in names {
        out.push(format!("edge:{}", n));
      }
    }
    out
  })
}

fn base_text(base: &str) -> Option<String> {
  if let Some(key) = base.strip_prefix("alpha:") {
    return alphabet().into_iter().find(|m| m.key == key).map(|m| m.xml);
  }
  model_text(base)
}

fn catalogue(base: &str) -> Arc<Catalogue> {
  static CACHE: Mutex<BTreeMap<String, Arc<Catalogue>>> = Mutex::new(BTreeMap::new());
  let mut cache = CACHE.lock().unwrap_or_else(|p| p.into_inner());
  if let Some(c) = cache.get(base) {
    return Arc::clone(c);
  }
  let cat = Arc::new(base_text(base).map(|t| catalogue_of(&t)).unwrap_or_default());
  cache.insert(base.to_string(), Arc::clone(&cat));
  cat
}

// ------------------------------------------------------------------------------------------------
// faults
// ------------------------------------------------------------------------------------------------

const ELEM_FAULTS: [&str; 4] = ["delete_element", "duplicate_element", "empty_element", "swap_with_next_sibling"];
const ATTR_FAULTS: [&str; 3] = ["delete_attribute", "empty_attribute_value", "swap_attribute_values"];
const TEXT_FAULTS: [&str; 2] = ["delete_text", "swap_text_with_next"];
/// Odd but well-formed attribute values and text contents (content faults: the element stays, what it says changes).
const ODD_VALUES: [&str; 11] = [
  // long multi-byte values behind 0 and 1 ASCII bytes: whatever byte offset a size cap cuts at falls inside a character for one of them
  "\u{e9}\u{4e2d}\u{1F600}\u{e9}\u{4e2d}\u{1F600}\u{e9}\u{4e2d}\u{1F600}\u{e9}\u{4e2d}\u{1F600}\u{e9}\u{4e2d}\u{1F600}\u{e9}\u{4e2d}\u{1F600}\u{e9}\u{4e2d}\u{1F600}\u{e9}\u{4e2d}\u{1F600}\u{e9}\u{4e2d}\u{1F600}\u{e9}\u{4e2d}\u{1F600}\u{e9}\u{4e2d}\u{1F600}\u{e9}\u{4e2d}\u{1F600}\u{e9}\u{4e2d}\u{1F600}\u{e9}\u{4e2d}\u{1F600}\u{e9}\u{4e2d}\u{1F600}\u{e9}\u{4e2d}\u{1F600}\u{e9}\u{4e2d}\u{1F600}\u{e9}\u{4e2d}\u{1F600}\u{e9}\u{4e2d}\u{1F600}\u{e9}\u{4e2d}\u{1F600}\u{e9}\u{4e2d}\u{1F600}\u{e9}\u{4e2d}\u{1F600}\u{e9}\u{4e2d}\u{1F600}\u{e9}\u{4e2d}\u{1F600}\u{e9}\u{4e2d}\u{1F600}\u{e9}\u{4e2d}\u{1F600}\u{e9}\u{4e2d}\u{1F600}\u{e9}\u{4e2d}\u{1F600}\u{e9}\u{4e2d}\u{1F600}\u{e9}\u{4e2d}\u{1F600}\u{e9}\u{4e2d}\u{1F600}\u{e9}\u{4e2d}\u{1F600}\u{e9}\u{4e2d}\u{1F600}\u{e9}\u{4e2d}\u{1F600}",
  "a\u{e9}\u{4e2d}\u{1F600}\u{e9}\u{4e2d}\u{1F600}\u{e9}\u{4e2d}\u{1F600}\u{e9}\u{4e2d}\u{1F600}\u{e9}\u{4e2d}\u{1F600}\u{e9}\u{4e2d}\u{1F600}\u{e9}\u{4e2d}\u{1F600}\u{e9}\u{4e2d}\u{1F600}\u{e9}\u{4e2d}\u{1F600}\u{e9}\u{4e2d}\u{1F600}\u{e9}\u{4e2d}\u{1F600}\u{e9}\u{4e2d}\u{1F600}\u{e9}\u{4e2d}\u{1F600}\u{e9}\u{4e2d}\u{1F600}\u{e9}\u{4e2d}\u{1F600}\u{e9}\u{4e2d}\u{1F600}\u{e9}\u{4e2d}\u{1F600}\u{e9}\u{4e2d}\u{1F600}\u{e9}\u{4e2d}\u{1F600}\u{e9}\u{4e2d}\u{1F600}\u{e9}\u{4e2d}\u{1F600}\u{e9}\u{4e2d}\u{1F600}\u{e9}\u{4e2d}\u{1F600}\u{e9}\u{4e2d}\u{1F600}\u{e9}\u{4e2d}\u{1F600}\u{e9}\u{4e2d}\u{1F600}\u{e9}\u{4e2d}\u{1F600}\u{e9}\u{4e2d}\u{1F600}\u{e9}\u{4e2d}\u{1F600}\u{e9}\u{4e2d}\u{1F600}\u{e9}\u{4e2d}\u{1F600}\u{e9}\u{4e2d}\u{1F600}\u{e9}\u{4e2d}\u{1F600}\u{e9}\u{4e2d}\u{1F600}",
  "=!!p://h/p#i", "http://[::1", "#", " ", "\u{e9}\u{4e2d}", "0", "true", "a b:c", "xxxxxxxxxxxxxxxxxxxxxxxxxxxxxxxxxxxxxxxxxxxxxxxxxxxxxxxxxxxxxxxxxxxxxxxxxxxxxxxxxxxxxxxxxxxxxxxxxxxxxxxxxxxxxxxxxxxxxxxxxxxxxxxxxxxxxxxxxxxxxxxxxxxxxxxxxxxxxxxxxxxxxxxxxxxxxxxxxxxxxxxxxxxxxxxxxxxxxxxxxxxxxxxxxxxxxxxxxxxxxxxxxxxxxxxxxxxxxxxxxxxxxxxxxxxxxxxxxxxxxxxxxxxx"];
const SOUPS_PER_TEXT: usize = 12;
const ODD_DIAGRAM_VALUES: [&str; 5] = ["\u{e9}\u{4e2d}\u{1F600}\u{e9}\u{4e2d}\u{1F600}\u{e9}\u{4e2d}\u{1F600}\u{e9}\u{4e2d}\u{1F600}\u{e9}\u{4e2d}\u{1F600}", " ", "NaN", "-1e999", "1,5"];
const ODD_TEXTS: [&str; 40] = [
  "\u{e9}\u{4e2d}\u{1F600}\u{e9}\u{4e2d}\u{1F600}\u{e9}\u{4e2d}\u{1F600}\u{e9}\u{4e2d}\u{1F600}\u{e9}\u{4e2d}\u{1F600}\u{e9}\u{4e2d}\u{1F600}\u{e9}\u{4e2d}\u{1F600}\u{e9}\u{4e2d}\u{1F600}\u{e9}\u{4e2d}\u{1F600}\u{e9}\u{4e2d}\u{1F600}\u{e9}\u{4e2d}\u{1F600}\u{e9}\u{4e2d}\u{1F600}\u{e9}\u{4e2d}\u{1F600}\u{e9}\u{4e2d}\u{1F600}\u{e9}\u{4e2d}\u{1F600}\u{e9}\u{4e2d}\u{1F600}\u{e9}\u{4e2d}\u{1F600}\u{e9}\u{4e2d}\u{1F600}\u{e9}\u{4e2d}\u{1F600}\u{e9}\u{4e2d}\u{1F600}\u{e9}\u{4e2d}\u{1F600}\u{e9}\u{4e2d}\u{1F600}\u{e9}\u{4e2d}\u{1F600}\u{e9}\u{4e2d}\u{1F600}\u{e9}\u{4e2d}\u{1F600}\u{e9}\u{4e2d}\u{1F600}\u{e9}\u{4e2d}\u{1F600}\u{e9}\u{4e2d}\u{1F600}\u{e9}\u{4e2d}\u{1F600}\u{e9}\u{4e2d}\u{1F600}\u{e9}\u{4e2d}\u{1F600}\u{e9}\u{4e2d}\u{1F600}\u{e9}\u{4e2d}\u{1F600}\u{e9}\u{4e2d}\u{1F600}",
  "\"a\u{e9}\u{4e2d}\u{1F600}\u{e9}\u{4e2d}\u{1F600}\u{e9}\u{4e2d}\u{1F600}\u{e9}\u{4e2d}\u{1F600}\u{e9}\u{4e2d}\u{1F600}\u{e9}\u{4e2d}\u{1F600}\u{e9}\u{4e2d}\u{1F600}\u{e9}\u{4e2d}\u{1F600}\u{e9}\u{4e2d}\u{1F600}\u{e9}\u{4e2d}\u{1F600}\u{e9}\u{4e2d}\u{1F600}\u{e9}\u{4e2d}\u{1F600}\u{e9}\u{4e2d}\u{1F600}\u{e9}\u{4e2d}\u{1F600}\u{e9}\u{4e2d}\u{1F600}\u{e9}\u{4e2d}\u{1F600}\u{e9}\u{4e2d}\u{1F600}\u{e9}\u{4e2d}\u{1F600}\u{e9}\u{4e2d}\u{1F600}\u{e9}\u{4e2d}\u{1F600}\u{e9}\u{4e2d}\u{1F600}\u{e9}\u{4e2d}\u{1F600}\u{e9}\u{4e2d}\u{1F600}\u{e9}\u{4e2d}\u{1F600}\u{e9}\u{4e2d}\u{1F600}\u{e9}\u{4e2d}\u{1F600}\u{e9}\u{4e2d}\u{1F600}\u{e9}\u{4e2d}\u{1F600}\u{e9}\u{4e2d}\u{1F600}\u{e9}\u{4e2d}\u{1F600}\u{e9}\u{4e2d}\u{1F600}\u{e9}\u{4e2d}\u{1F600}\u{e9}\u{4e2d}\u{1F600}\u{e9}\u{4e2d}\u{1F600}",
  "(", "1 / 0", "x y z", "[1..", "function() 1", "null", "\"unterminated", "-",
  // unusual unary tests and lexical edge cases
  "not()", "< ", ",", "/* c */ 1", "// c", "\"\\u12\"", "\"\\", "1e", "123456789012345678901234567890123456789012345678901234567890.5", "@\"x\"", "if then else", "{a:}", ".5.", "\u{1D11E}", "x instance of", "",
  // a name beginning with the part `in` where the variable of an iteration is expected
  "for in+x in [1] return 1", "some in-a in [1] satisfies true", "every in in in satisfies in",
  // escapes in string literals: lone and paired surrogates, other forms
  "\"\\uDC00\"", "\"\\uD800\"", "\"\\uD800\\u0041\"", "\"\\uD83D\\uDE00\"", "\"\\U0001F600\"", "\"\\x\\q\\'\"",
  // expressions whose evaluation once panicked or never ended (F14-F18)
  "sort([1,0,2,0,3,2,3,2,1,0,0,2,0,2,0,1,1,2,1,0,0], function(a,b) a != b)",
  "sublist([1,2,3], 2, 18446744073709551615)",
  "number(\"1\\u0000\", \".\", \",\")",
  "count(for i in 9223372036854775807..9223372036854775807 return i)",
  "median([0,10**6144*10 - 10**6144*10,14,0,7,14,0,7,14,0,1,14,0,7,14,0,7,14,0,7,14])",
];

/// All single structural faults of a base text: (kind, index, variant).
fn single_faults(cat: &Catalogue) -> Vec<(String, usize, usize)> {
  let mut out = vec![];
  for (i, h) in cat.hrefs.iter().enumerate() {
    out.push(("href_to_missing".to_string(), i, 0));
    if h.own_id.is_some() {
      out.push(("href_to_own_owner".to_string(), i, 0));
    }
    for k in 0..h.ancestors.len() {
      out.push(("href_to_requirer".to_string(), i, k));
    }
  }
  for (i, t) in cat.typerefs.iter().enumerate() {
    out.push(("typeref_to_own_definition".to_string(), i, 0));
    for k in 0..t.referrers.len() {
      out.push(("typeref_to_referrer".to_string(), i, k));
    }
  }
  let href_count = out.len();
  let _ = href_count;
  for i in 0..cat.elems.len() {
    for f in ELEM_FAULTS {
      if f == "swap_with_next_sibling" && cat.elems[i].next_sibling.is_none() {
        continue;
      }
      if f == "empty_element" && !cat.elems[i].has_content {
        continue;
      }
      out.push((f.to_string(), i, 0));
    }
  }
  for i in 0..cat.attrs.len() {
    for f in ATTR_FAULTS {
      if f == "swap_attribute_values" && cat.attrs[i].next_value.is_none() {
        continue;
      }
      out.push((f.to_string(), i, 0));
    }
    // an id that collides with the id of another element (the next attribute named `id` with another value)
    if cat.attrs[i].name == "id" && !cat.attrs[i].owner_tag.starts_with("DMN") {
      out.push(("id_collision".to_string(), i, 0));
      out.push(("id_collision".to_string(), i, 1));
    }
    // diagram attributes (two thirds of all attributes) are numbers, colours and references: they
    // get the odd values of those kinds only
    if !cat.attrs[i].owner_tag.starts_with("DMN") && cat.attrs[i].owner_tag != "Bounds" && cat.attrs[i].owner_tag != "waypoint" && cat.attrs[i].owner_tag != "Size" {
      for v in 0..ODD_VALUES.len() {
        out.push(("odd_attribute_value".to_string(), i, v));
      }
    } else {
      for v in 0..ODD_DIAGRAM_VALUES.len() {
        out.push(("odd_diagram_value".to_string(), i, v));
      }
    }
  }
  for i in 0..cat.texts.len() {
    for f in TEXT_FAULTS {
      if f == "swap_text_with_next" && cat.texts[i].next_same_kind.is_none() {
        continue;
      }
      out.push((f.to_string(), i, 0));
    }
    if cat.texts[i].parent_tag == "text" || cat.texts[i].parent_tag == "typeRef" {
      for v in 0..ODD_TEXTS.len() {
        out.push(("odd_text".to_string(), i, v));
      }
      // token soups of the FEEL vocabulary, different ones at every position
      for v in 0..SOUPS_PER_TEXT {
        out.push(("soup_text".to_string(), i, v));
      }
    }
  }
  out
}

fn is_reference_fault(kind: &str) -> bool {
  kind.starts_with("href_") || kind.starts_with("typeref_")
}

/// An edit of the text: replace [start, end) by the bytes.
type Edit = (usize, usize, Vec<u8>);

fn edits_of(cat: &Catalogue, kind: &str, index: usize, variant: usize) -> Option<(Vec<Edit>, String)> {
  let t = cat.text.as_bytes();
  match kind {
    "delete_element" => {
      let e = cat.elems.get(index)?;
      Some((vec![(e.start, e.end, vec![])], e.tag.clone()))
    }
    "duplicate_element" => {
      let e = cat.elems.get(index)?;
      Some((vec![(e.end, e.end, t[e.start..e.end].to_vec())], e.tag.clone()))
    }
    "empty_element" => {
      let e = cat.elems.get(index)?;
      let (a, b) = e.inner?;
      Some((vec![(a, b, vec![])], e.tag.clone()))
    }
    "swap_with_next_sibling" => {
      let e = cat.elems.get(index)?;
      let (a, b) = e.next_sibling?;
      if a < e.end {
        return None;
      }
      Some((vec![(e.start, e.end, t[a..b].to_vec()), (a, b, t[e.start..e.end].to_vec())], e.tag.clone()))
    }
    "delete_attribute" => {
      let a = cat.attrs.get(index)?;
      Some((vec![(a.start, a.end, vec![])], format!("{}@{}", a.owner_tag, a.name)))
    }
    "empty_attribute_value" => {
      let a = cat.attrs.get(index)?;
      Some((vec![(a.vstart, a.vend, vec![])], format!("{}@{}", a.owner_tag, a.name)))
    }
    "swap_attribute_values" => {
      let a = cat.attrs.get(index)?;
      let (s, e) = a.next_value?;
      Some((vec![(a.vstart, a.vend, t[s..e].to_vec()), (s, e, t[a.vstart..a.vend].to_vec())], format!("{}@{}", a.owner_tag, a.name)))
    }
    "odd_attribute_value" => {
      let a = cat.attrs.get(index)?;
      Some((vec![(a.vstart, a.vend, ODD_VALUES[variant % ODD_VALUES.len()].as_bytes().to_vec())], format!("{}@{}", a.owner_tag, a.name)))
    }
    "id_collision" => {
      let a = cat.attrs.get(index)?;
      let own = &t[a.vstart..a.vend];
      // variant 0: the id of the next element that has another id and another tag; variant 1: of the previous one
      let other = if variant % 2 == 0 {
        cat.attrs[index + 1..].iter().find(|b| b.name == "id" && b.owner_tag != a.owner_tag && &t[b.vstart..b.vend] != own)
      } else {
        cat.attrs[..index].iter().rev().find(|b| b.name == "id" && b.owner_tag != a.owner_tag && &t[b.vstart..b.vend] != own)
      }?;
      Some((vec![(a.vstart, a.vend, t[other.vstart..other.vend].to_vec())], format!("{}@id", a.owner_tag)))
    }
    "odd_diagram_value" => {
      let a = cat.attrs.get(index)?;
      Some((vec![(a.vstart, a.vend, ODD_DIAGRAM_VALUES[variant % ODD_DIAGRAM_VALUES.len()].as_bytes().to_vec())], format!("{}@{}", a.owner_tag, a.name)))
    }
    "odd_text" => {
      let x = cat.texts.get(index)?;
      Some((vec![(x.start, x.end, ODD_TEXTS[variant % ODD_TEXTS.len()].replace('<', "&lt;").into_bytes())], format!("{}#text", x.parent_tag)))
    }
    "soup_text" => {
      let x = cat.texts.get(index)?;
      let soup = crate::jsonval::feel_token_soup((index as u64) * 1_000_003 + variant as u64 * 7919 + cat.text.len() as u64);
      Some((vec![(x.start, x.end, soup.replace('&', "&amp;").replace('<', "&lt;").into_bytes())], format!("{}#text", x.parent_tag)))
    }
    "delete_text" => {
      let x = cat.texts.get(index)?;
      Some((vec![(x.start, x.end, vec![])], format!("{}#text", x.parent_tag)))
    }
    "swap_text_with_next" => {
      let x = cat.texts.get(index)?;
      let (s, e) = x.next_same_kind?;
      Some((vec![(x.start, x.end, t[s..e].to_vec()), (s, e, t[x.start..x.end].to_vec())], format!("{}#text", x.parent_tag)))
    }
    "href_to_missing" => {
      let h = cat.hrefs.get(index)?;
      Some((vec![(h.vstart, h.vend, b"#_no_such_element".to_vec())], format!("{}/{}", h.owner_tag, h.elem_tag)))
    }
    "href_to_own_owner" => {
      let h = cat.hrefs.get(index)?;
      let id = h.own_id.as_ref()?;
      Some((vec![(h.vstart, h.vend, format!("#{}", id).into_bytes())], format!("{}/{}", h.owner_tag, h.elem_tag)))
    }
    "href_to_requirer" => {
      let h = cat.hrefs.get(index)?;
      let id = h.ancestors.get(variant)?;
      Some((vec![(h.vstart, h.vend, format!("#{}", id).into_bytes())], format!("{}/{}", h.owner_tag, h.elem_tag)))
    }
    "typeref_to_own_definition" => {
      let r = cat.typerefs.get(index)?;
      Some((vec![(r.start, r.end, r.own_name.clone().into_bytes())], "itemDefinition/typeRef".to_string()))
    }
    "typeref_to_referrer" => {
      let r = cat.typerefs.get(index)?;
      let name = r.referrers.get(variant)?;
      Some((vec![(r.start, r.end, name.clone().into_bytes())], "itemDefinition/typeRef".to_string()))
    }
    _ => None,
  }
}

/// Applies non-overlapping edits (overlapping ones are dropped, later first).
fn apply_edits(text: &[u8], mut edits: Vec<Edit>) -> Vec<u8> {
  edits.sort_by_key(|e| e.0);
  let mut kept: Vec<Edit> = vec![];
  for e in edits {
    if kept.last().map(|k| e.0 >= k.1).unwrap_or(true) {
      kept.push(e);
    }
  }
  let mut out = text.to_vec();
  for (s, e, bytes) in kept.into_iter().rev() {
    if s <= e && e <= out.len() {
      out.splice(s..e, bytes);
    }
  }
  out
}

/// The faulted text of a plan (debugging aid).
pub fn debug_text(plan: &Value) -> Vec<u8> {
  faulted_text(plan).0
}

fn apply_storage_fault(bytes: &mut Vec<u8>, f: &Value) -> String {
  let kind = pstr(f, "kind").to_string();
  if bytes.is_empty() {
    return kind;
  }
  let len = bytes.len().max(1);
  let at = (pu64(f, "at") as usize) % len;
  match kind.as_str() {
    "truncate" => bytes.truncate(at),
    "lost_write" => bytes.clear(),
    "bit_flip" => {
      bytes[at] ^= 1 << (pu64(f, "bit") % 8);
    }
    "burst_flip" => {
      for k in 0..(1 + pu64(f, "n") as usize % 16) {
        let i = (at + k) % len;
        bytes[i] ^= 0x55;
      }
    }
    "drop_block" => {
      let end = (at + 64).min(bytes.len());
      bytes.drain(at..end);
    }
    "duplicate_block" => {
      let end = (at + 64).min(bytes.len());
      let block = bytes[at..end].to_vec();
      bytes.splice(end..end, block);
    }
    "swap_blocks" => {
      let b = (pu64(f, "at2") as usize) % len;
      let (x, y) = (at.min(b), at.max(b));
      if y >= x + 64 && y + 64 <= bytes.len() {
        for k in 0..64 {
          bytes.swap(x + k, y + k);
        }
      }
    }
    "splice_foreign" => {
      let list = base_list();
      let other = &list[(pu64(f, "other") as usize) % list.len()];
      if let Some(t) = base_text(other) {
        let ob = t.as_bytes();
        let s = (pu64(f, "at2") as usize) % ob.len().max(1);
        let e = (s + 64 + (pu64(f, "n") as usize % 512)).min(ob.len());
        let end = (at + (e - s)).min(bytes.len());
        bytes.splice(at..end, ob[s..e].to_vec());
      }
    }
    "invalid_utf8" => {
      bytes[at] = 0xff;
    }
    _ => {}
  }
  kind
}

// ------------------------------------------------------------------------------------------------
// the case space
// ------------------------------------------------------------------------------------------------

struct Space {
  /// (base index, kind, index, variant) of every single structural fault.
  singles: Vec<(u32, String, u32, u32)>,
  /// Indices into `singles` of the reference faults (always run in the quick tier).
  reference: Vec<u32>,
  others: Vec<u32>,
}

fn space() -> &'static Space {
  static SPACE: OnceLock<Space> = OnceLock::new();
  SPACE.get_or_init(|| {
    let mut singles = vec![];
    for (bi, base) in base_list().iter().enumerate() {
      let cat = catalogue(base);
      for (kind, index, variant) in single_faults(&cat) {
        singles.push((bi as u32, kind, index as u32, variant as u32));
      }
    }
    let mut reference = vec![];
    let mut others = vec![];
    for (i, s) in singles.iter().enumerate() {
      if is_reference_fault(&s.1) {
        reference.push(i as u32);
      } else {
        others.push(i as u32);
      }
    }
    Space { singles, reference, others }
  })
}

const QUICK_SAMPLE_DIVISOR: u64 = 5;
const QUICK_SEEDED: u64 = 40_000;
const QUICK_SYSTEM: u64 = 3_000;
const THOROUGH_SEEDED: u64 = 1_000_000;
const THOROUGH_SYSTEM: u64 = 50_000;

fn layout(tier: Tier) -> (u64, u64, u64) {
  let sp = space();
  match tier {
    Tier::Quick => (sp.reference.len() as u64 + sp.others.len() as u64 / QUICK_SAMPLE_DIVISOR, QUICK_SEEDED, QUICK_SYSTEM),
    Tier::Thorough => (sp.singles.len() as u64, THOROUGH_SEEDED, THOROUGH_SYSTEM),
  }
}

fn single_plan(i: usize) -> Value {
  let sp = space();
  let (bi, kind, index, variant) = &sp.singles[i];
  json!({"base": base_list()[*bi as usize], "faults": [{"kind": kind, "index": index, "variant": variant}], "class": "single"})
}

fn gen_storage_fault(rng: &mut Rng) -> Value {
  let kinds = ["truncate", "lost_write", "bit_flip", "bit_flip", "burst_flip", "drop_block", "duplicate_block", "swap_blocks", "splice_foreign", "invalid_utf8"];
  json!({"kind": rng.pick(&kinds), "at": rng.below(1 << 24), "at2": rng.below(1 << 24), "bit": rng.below(8), "n": rng.below(1024), "other": rng.below(1 << 16)})
}

// ------------------------------------------------------------------------------------------------
// execution of one case
// ------------------------------------------------------------------------------------------------

fn faulted_text(plan: &Value) -> (Vec<u8>, String, bool) {
  let base = pstr(plan, "base");
  let cat = catalogue(base);
  let mut edits: Vec<Edit> = vec![];
  let mut desc: Vec<String> = vec![];
  let mut storage = false;
  let mut storage_faults: Vec<&Value> = vec![];
  for f in parr(plan, "faults") {
    let kind = pstr(f, "kind");
    if let Some((e, site)) = edits_of(&cat, kind, pu64(f, "index") as usize, pu64(f, "variant") as usize) {
      edits.extend(e);
      desc.push(format!("{}:{}", kind, site));
    } else {
      storage_faults.push(f);
    }
  }
  let mut bytes = apply_edits(cat.text.as_bytes(), edits);
  for f in storage_faults {
    let k = apply_storage_fault(&mut bytes, f);
    desc.push(k);
    storage = true;
  }
  (bytes, desc.join("+"), storage)
}

fn viol(rule: &str, site: &str, idx: u64, expected: String, observed: String) -> Violation {
  Violation::new(rule, format!("C12:{}:{}", rule, site), idx, expected, observed)
}

/// Input contexts for evaluation: empty, and per input data of the (faulted) model a value of the
/// declared kind, of a wrong kind, and null; plus the inputs of the compliance tests of the base model.
/// Number of the input classes made of values of some size or shape (after the four basic classes).
const BIG_CLASSES: usize = 11;

fn input_contexts(defs: &dmntk_model::model::Definitions, base: &str) -> Vec<FeelContext> {
  let mut right = vec![];
  let mut wrong = vec![];
  let mut nulls = vec![];
  // wrong-kind values of some size: long multi-byte strings behind 0..3 ASCII bytes, a long list, a deep context
  let mut big: Vec<Vec<String>> = vec![vec![]; BIG_CLASSES];
  for id in defs.input_data() {
    let name = id.name().to_string();
    if name.is_empty() || name.contains('"') || name.contains(':') || name.contains('{') || name.contains('}') || name.contains(',') {
      continue;
    }
    let ty = id.variable().type_ref().clone().unwrap_or_default();
    let (r, w) = match ty.as_str() {
      "string" => ("\"text\"", "12"),
      "number" => ("42", "\"text\""),
      "boolean" => ("true", "7"),
      "date" => ("date(\"2021-03-28\")", "1"),
      "time" => ("time(\"10:20:30\")", "1"),
      "dateTime" => ("date and time(\"2021-03-28T10:20:30\")", "\"x\""),
      "dayTimeDuration" => ("duration(\"P1D\")", "true"),
      "yearMonthDuration" => ("duration(\"P1Y\")", "true"),
      _ => ("{a: 1, b: \"x\", c: [1, 2]}", "13"),
    };
    right.push(format!("{}: {}", name, r));
    wrong.push(format!("{}: {}", name, w));
    nulls.push(format!("{}: null", name));
    let long = "\u{17c}".repeat(40) + &"\u{4e2d}".repeat(40) + &"\u{1F600}".repeat(12);
    for pad in 0..4 {
      big[pad].push(format!("{}: \"{}{}\"", name, "a".repeat(pad), long));
    }
    big[4].push(format!("{}: [{}]", name, (0..40).map(|i| i.to_string()).collect::<Vec<_>>().join(", ")));
    big[5].push(format!("{}: {}{}{}", name, "{k: ".repeat(40), "-99999999999999999999999999999999.5", "}".repeat(40)));
    big[6].push(format!("{}: {}1{}", name, "[".repeat(40), "]".repeat(40)));
    // shapes: an empty list, a list of a null, an empty context and a list; an empty context; the components of
    // the declared item definition (when it has some) all null, one of them a list holding a null, one extra
    big[7].push(format!("{}: []", name));
    big[8].push(format!("{}: [null, {{}}, [null]]", name));
    big[9].push(format!("{}: {{}}", name));
    let components: Vec<String> = defs
      .item_definitions()
      .iter()
      .find(|d| d.name() == ty.as_str())
      .map(|d| d.item_components().iter().map(|c| c.name().to_string()).filter(|n| !n.is_empty() && n.chars().all(|ch| ch.is_alphanumeric() || ch == ' ' || ch == '_')).collect())
      .unwrap_or_default();
    if components.is_empty() {
      big[10].push(format!("{}: {{a: null, b: [{{a: null}}, null]}}", name));
    } else {
      let inner: Vec<String> = components.iter().enumerate().map(|(i, c)| if i == 0 { format!("{}: [{{{}: null}}, null]", c, c) } else { format!("{}: null", c) }).collect();
      big[10].push(format!("{}: {{{}, zzz unknown: 1}}", name, inner.join(", ")));
      big[7].pop();
      big[7].push(format!("{}: [{{{}}}, null, {{{}: 1}}]", name, inner.join(", "), components[0]));
    }
  }
  let mut texts = vec!["{}".to_string(), format!("{{{}}}", right.join(", ")), format!("{{{}}}", wrong.join(", ")), format!("{{{}}}", nulls.join(", "))];
  if !right.is_empty() {
    for b in &big {
      texts.push(format!("{{{}}}", b.join(", ")));
    }
  }
  // real inputs of the base model
  static WORKLOAD: OnceLock<Vec<(String, String)>> = OnceLock::new();
  let wl = WORKLOAD.get_or_init(|| {
    let mut out = vec![];
    if let Ok(text) = std::fs::read_to_string(data_dir().join("c20_workload.json")) {
      if let Ok(Value::Array(items)) = serde_json::from_str::<Value>(&text) {
        for it in items {
          out.push((pstr(&it, "model").to_string(), pstr(&it, "ctx").to_string()));
        }
      }
    }
    out
  });
  let mut added = 0;
  for (m, ctx) in wl.iter() {
    if m == base && !texts.contains(ctx) {
      texts.push(ctx.clone());
      added += 1;
      if added >= 2 {
        break;
      }
    }
  }
  let mut out = vec![];
  for t in texts {
    if let Ok(Ok(c)) = catch_unwind(|| dmntk_feel_evaluator::evaluate_context(&Scope::default(), &t)) {
      out.push(c);
    }
  }
  if out.is_empty() {
    out.push(FeelContext::default());
  }
  out
}

/// Is there a cycle in the requirements the model DECLARES (information and knowledge requirements of
/// decisions and knowledge models; output, encapsulated and input decisions of decision services)?
/// The simulator's own reading of the model, independent of the check in the code under test.
fn declared_requirements_cyclic(defs: &dmntk_model::model::Definitions) -> bool {
  use dmntk_model::model::DmnElement;
  let mut edges: BTreeMap<String, Vec<String>> = BTreeMap::new();
  for d in defs.decisions() {
    if let Some(id) = d.id() {
      let e = edges.entry(id.clone()).or_default();
      for r in d.information_requirements() {
        if let Some(h) = r.required_decision() {
          e.push(h.into());
        }
      }
      for r in d.knowledge_requirements() {
        if let Some(h) = r.required_knowledge() {
          e.push(h.into());
        }
      }
    }
  }
  for b in defs.business_knowledge_models() {
    if let Some(id) = b.id() {
      let e = edges.entry(id.clone()).or_default();
      for r in b.knowledge_requirements() {
        if let Some(h) = r.required_knowledge() {
          e.push(h.into());
        }
      }
    }
  }
  for s in defs.decision_services() {
    if let Some(id) = s.id() {
      let e = edges.entry(id.clone()).or_default();
      for h in s.output_decisions().iter().chain(s.encapsulated_decisions()).chain(s.input_decisions()) {
        e.push(h.into());
      }
    }
  }
  // iterative colouring: 1 = on the current path, 2 = finished
  let mut colour: BTreeMap<&str, u8> = BTreeMap::new();
  for start in edges.keys() {
    if colour.contains_key(start.as_str()) {
      continue;
    }
    let mut stack: Vec<(&str, usize)> = vec![(start.as_str(), 0)];
    colour.insert(start.as_str(), 1);
    while let Some((node, next)) = stack.pop() {
      let succ = edges.get(node).map(|v| v.as_slice()).unwrap_or(&[]);
      if next < succ.len() {
        stack.push((node, next + 1));
        let t = succ[next].as_str();
        match colour.get(t) {
          Some(1) => return true,
          Some(_) => {}
          None => {
            colour.insert(t, 1);
            stack.push((t, 0));
          }
        }
      } else {
        colour.insert(node, 2);
      }
    }
  }
  false
}

fn invocable_names(defs: &dmntk_model::model::Definitions) -> Vec<String> {
  let mut names: Vec<String> = vec![];
  for d in defs.decisions() {
    names.push(d.name().to_string());
  }
  for b in defs.business_knowledge_models() {
    names.push(b.name().to_string());
  }
  for s in defs.decision_services() {
    names.push(s.name().to_string());
  }
  names
}

/// The direct path: parse -> build -> evaluate every invocable. Returns the outcome class.
fn direct_path(text: &str, base: &str, desc: &str, only: Option<(&str, usize)>, c: &mut Counters) -> Result<&'static str, Violation> {
  crate::driver::mark("parse");
  let parsed = catch_unwind(AssertUnwindSafe(|| dmntk_model::parse(text)));
  let defs = match parsed {
    Err(_) => {
      let rec = take_last_panic();
      return Err(viol("panic-in-parse", &panic_site(&rec), 0, format!("parsing the model text with fault [{}] returns a model or an error", desc), format!("panic at {}", rec)));
    }
    Ok(Err(_)) => return Ok("parse_error"),
    Ok(Ok(d)) => d,
  };
  crate::driver::mark("build");
  let built = catch_unwind(AssertUnwindSafe(|| ModelEvaluator::new(&defs)));
  let me = match built {
    Err(_) => {
      let rec = take_last_panic();
      return Err(viol("panic-in-build", &panic_site(&rec), 1, format!("building the evaluator of the model with fault [{}] returns an evaluator or an error", desc), format!("panic at {}", rec)));
    }
    Ok(Err(_)) => return Ok("build_error"),
    Ok(Ok(me)) => me,
  };
  let names = invocable_names(&defs);
  let inputs = input_contexts(&defs, base);
  // every case takes half of the size-and-shape classes, which half depends on the text
  let rotation = text.len() + text.bytes().take(4096).map(|b| b as usize).sum::<usize>();
  for name in &names {
    for (input_index, input) in inputs.iter().enumerate() {
      if let Some((only_name, only_input)) = only {
        if only_name != name || only_input != input_index {
          continue;
        }
      } else if (4..4 + BIG_CLASSES).contains(&input_index) && inputs.len() >= 4 + BIG_CLASSES && (rotation + input_index) % 2 == 1 {
        continue;
      }
      crate::driver::mark(&format!("evaluate|{}|{}", input_index, name));
      c.inc("evaluations");
      let r = catch_unwind(AssertUnwindSafe(|| me.evaluate_invocable(name, input)));
      if r.is_err() {
        let rec = take_last_panic();
        if rec.contains(crate::simrt::RECURSION_PROBE) {
          // two different things end here: a FEEL function that reaches itself through names (nothing can
          // reject that before evaluation: the open known finding), and a cycle in the DECLARED requirements,
          // which the build has to reject
          if declared_requirements_cyclic(&defs) {
            return Err(viol(
              "unbounded-recursion",
              "declared-requirement-cycle-not-rejected",
              2,
              format!("a model whose declared requirements are cyclic (fault [{}]) is refused or evaluates to null", desc),
              format!("the evaluator was built and invoking `{}` recurses beyond {} nested function bodies", name, crate::simrt::RECURSION_LIMIT),
            ));
          }
          return Err(viol(
            "unbounded-recursion",
            "feel-function-invocation",
            2,
            format!("invoking `{}` of the built model with fault [{}] on {} returns a value", name, desc, input),
            format!("function bodies nest deeper than {} invocations: nothing limits the recursion, the stack overflows and the process aborts", crate::simrt::RECURSION_LIMIT),
          ));
        }
        return Err(viol(
          "panic-in-evaluate",
          &panic_site(&rec),
          2,
          format!("invoking `{}` of the built model with fault [{}] on {} returns a value", name, desc, input),
          format!("panic at {}", rec),
        ));
      }
    }
  }
  Ok("evaluated")
}

fn http_call(app: &mut Box<dyn crate::http::AppService>, method: &str, path: &str, ct: Option<&str>, body: Vec<u8>) -> Result<crate::http::Resp, String> {
  let st = Rc::new(RefCell::new(BodyState::default()));
  st.borrow_mut().chunks.push_back(body.clone());
  st.borrow_mut().eof = true;
  let req = make_request(method, path, ct, Some(body.len()), st);
  let mut call = app.start(req);
  for _ in 0..16 {
    match poll_call(&mut call) {
      PollResult::Pending => continue,
      PollResult::Ready(r) => return Ok(r),
      PollResult::Panicked(rec) => return Err(rec),
    }
  }
  Err("?: the request future stays pending".to_string())
}

/// The system paths: directory load and HTTP add/deploy/evaluate, then the known-good model.
fn system_path(bytes: &[u8], base: &str, desc: &str, c: &mut Counters) -> Result<(), Violation> {
  let good = alphabet().into_iter().find(|m| m.key == "H").unwrap();
  // (a) directory load next to a known-good model
  let dir = scratch_dir().join(format!("c12-{}", std::process::id()));
  let _ = std::fs::remove_dir_all(&dir);
  let _ = std::fs::create_dir_all(&dir);
  let _ = std::fs::write(dir.join("faulted.dmn"), bytes);
  let _ = std::fs::write(dir.join("good.dmn"), good.xml.as_bytes());
  crate::driver::mark("system|directory-load");
  let loaded = catch_unwind(AssertUnwindSafe(|| Workspace::new(Some(dir.clone()))));
  let _ = std::fs::remove_dir_all(&dir);
  c.inc("system.directory_loads");
  match loaded {
    Err(_) => {
      let rec = take_last_panic();
      return Err(viol("panic-in-directory-load", &panic_site(&rec), 10, format!("the service starts on a directory holding a good model and one with fault [{}]", desc), format!("panic at {}", rec)));
    }
    Ok(ws) => {
      let r = catch_unwind(AssertUnwindSafe(|| ws.evaluate_invocable(good.name, "d", &FeelContext::default())));
      match r {
        Ok(Ok(v)) if v.to_string() == format!("\"{}\"", good.version) => {}
        Ok(other) => {
          // the faulted file may legitimately have taken the good model's name or namespace
          let text = std::str::from_utf8(bytes).ok().and_then(|t| catch_unwind(|| dmntk_model::parse(t)).ok()).and_then(|r| r.ok());
          let clash = text.map(|d| d.name() == good.name || d.namespace() == good.namespace).unwrap_or(false);
          if !clash {
            return Err(viol("good-model-lost", "directory-load", 11, format!("the good model evaluates to \"{}\" next to a file with fault [{}]", good.version, desc), format!("{:?}", other.map(|v| v.to_string()))));
          }
        }
        Err(_) => {
          let rec = take_last_panic();
          return Err(viol("panic-in-evaluate", &panic_site(&rec), 12, "the good model evaluates".into(), rec));
        }
      }
    }
  }
  // (b) through the service
  let data = VerifAppData::new(Workspace::new(None));
  let mut app = match build_app(&data) {
    Some(a) => a,
    None => return Ok(()),
  };
  c.inc("system.http_sequences");
  let js = Some("application/json");
  let defs = std::str::from_utf8(bytes).ok().and_then(|t| catch_unwind(|| dmntk_model::parse(t)).ok()).and_then(|r| r.ok());
  let mut steps: Vec<(String, &str, String, Option<&str>, Vec<u8>)> = vec![
    ("add faulted".into(), "POST", "/definitions/add".into(), js, json!({"content": base64::encode(bytes)}).to_string().into_bytes()),
    ("deploy".into(), "POST", "/definitions/deploy".into(), None, vec![]),
  ];
  if let Some(d) = &defs {
    let model_name = d.name().to_string();
    let inputs = input_contexts(d, base);
    for inv in invocable_names(d).into_iter().take(6) {
      if model_name.contains('/') || inv.contains('/') || model_name.is_empty() || inv.is_empty() {
        continue;
      }
      let path = format!("/evaluate/{}/{}", percent_encode(&model_name), percent_encode(&inv));
      for input in inputs.iter().take(2) {
        steps.push((format!("evaluate {}", inv), "POST", path.clone(), None, input.to_string().into_bytes()));
      }
    }
  }
  steps.push(("add good".into(), "POST", "/definitions/add".into(), js, json!({"content": base64::encode(good.xml.as_bytes())}).to_string().into_bytes()));
  steps.push(("deploy".into(), "POST", "/definitions/deploy".into(), None, vec![]));
  steps.push(("evaluate good".into(), "POST", format!("/evaluate/{}/d", good.name), None, b"{}".to_vec()));
  let n = steps.len();
  for (i, (label, method, path, ct, body)) in steps.into_iter().enumerate() {
    crate::driver::mark(&format!("system|http|{}", label));
    match http_call(&mut app, method, &path, ct, body) {
      Err(rec) if rec.contains(crate::simrt::RECURSION_PROBE) => {
        let cyclic = std::str::from_utf8(bytes).ok().and_then(|t| catch_unwind(|| dmntk_model::parse(t)).ok()).and_then(|r| r.ok()).map(|d| declared_requirements_cyclic(&d)).unwrap_or(false);
        return Err(viol("unbounded-recursion", if cyclic { "declared-requirement-cycle-not-rejected" } else { "feel-function-invocation" }, 20 + i as u64, format!("`{}` is answered (model with fault [{}])", label, desc), "function bodies nest deeper than the probe's limit".to_string()));
      }
      Err(rec) => {
        return Err(viol("no-response", &format!("panic:{}", panic_site(&rec)), 20 + i as u64, format!("`{}` is answered (model with fault [{}])", label, desc), format!("the handler panicked at {}", rec)));
      }
      Ok(resp) => {
        if parse_strict(&resp.body).is_err() {
          return Err(viol("response-not-json", &label.replace(' ', "-"), 20 + i as u64, format!("`{}` is answered with a JSON document", label), String::from_utf8_lossy(&resp.body).chars().take(200).collect()));
        }
        if i == n - 1 {
          let ok = parse_strict(&resp.body).ok().and_then(|j| j.get("data").cloned()) == Some(crate::jsonval::J::Str(good.version.to_string()));
          let clash = defs.as_ref().map(|d| d.name() == good.name || d.namespace() == good.namespace).unwrap_or(false);
          if !ok && !clash {
            return Err(viol("good-model-lost", "after-faulted-model", 20 + i as u64, format!("after the model with fault [{}] the good model still adds, deploys and evaluates to \"{}\"", desc, good.version), String::from_utf8_lossy(&resp.body).chars().take(200).collect()));
          }
        }
      }
    }
    if data.is_poisoned() {
      return Err(viol("lock-poisoned", &label.replace(' ', "-"), 20 + i as u64, "the workspace lock is not poisoned".into(), format!("poisoned after `{}` (model with fault [{}])", label, desc)));
    }
  }
  Ok(())
}

impl C12 {
  fn exec_inner(&self, plan: &Value) -> Outcome {
    let mut out = Outcome::default();
    let (bytes, desc, storage) = faulted_text(plan);
    let base = pstr(plan, "base").to_string();
    let class = pstr(plan, "class").to_string();
    out.counters.inc(&format!("cases.{}", class));
    for f in parr(plan, "faults") {
      out.counters.inc(&format!("fault.{}", pstr(f, "kind")));
    }
    let mut h = Hasher::default();
    h.bytes(&bytes);
    let text_hash = h.finish();
    let original = catalogue(&base);
    if bytes != original.text.as_bytes() {
      out.distinct_keys.push(text_hash);
    } else {
      out.counters.inc("cases.fault_left_text_unchanged");
    }
    let _ = storage;
    let mut log = vec![format!("base {} fault [{}] -> {} bytes", base, desc, bytes.len())];
    let result = match std::str::from_utf8(&bytes) {
      Err(_) => {
        out.counters.inc("outcome.not_utf8");
        Ok("not_utf8")
      }
      Ok(text) => {
        let only_inv = pstr(plan, "only_inv").to_string();
        let only = if only_inv.is_empty() { None } else { Some((only_inv.as_str(), pu64(plan, "only_input") as usize)) };
        direct_path(text, &base, &desc, only, &mut out.counters)
      }
    };
    match result {
      Ok(class_name) => {
        out.counters.inc(&format!("outcome.{}", class_name));
        log.push(format!("direct path: {}", class_name));
        if class == "system" {
          if let Err(v) = system_path(&bytes, &base, &desc, &mut out.counters) {
            out.violation = Some(v);
          } else {
            log.push("system paths: served".to_string());
          }
        }
      }
      Err(v) => out.violation = Some(v),
    }
    out.counters.max("max.function_body_nesting", crate::simrt::max_function_depth_seen());
    let mut lh = Hasher::default();
    for l in &log {
      lh.str(l);
    }
    lh.str(&format!("{:?}", out.violation.as_ref().map(|v| &v.signature)));
    out.log_hash = lh.finish();
    out.log_tail = log;
    out
  }
}

impl Sim for C12 {
  fn id(&self) -> &'static str {
    "C12"
  }
  fn level(&self) -> &'static str {
    "fault_enumeration"
  }
  fn runs(&self, tier: Tier) -> u64 {
    let (a, b, c) = layout(tier);
    base_list().len() as u64 + a + b + c
  }
  fn block(&self, tier: Tier) -> u64 {
    match tier {
      Tier::Quick => 400,
      Tier::Thorough => 2_000,
    }
  }
  fn watchdog_ms(&self) -> u64 {
    10_000
  }
  fn child_setup(&self) {
    crate::simrt::install();
    crate::simrt::install_recursion_probe();
    let _ = base_list();
  }
  fn gen_plan(&self, seed: u64, run: u64, tier: Tier) -> Value {
    let sp = space();
    let (n_single, n_seeded, _n_sys) = layout(tier);
    // first the unfaulted base texts themselves: what they do is the reference for everything after
    let nb = base_list().len() as u64;
    if run < nb {
      return json!({"base": base_list()[run as usize], "faults": [], "class": "unfaulted"});
    }
    let run = run - nb;
    if run < n_single {
      return match tier {
        Tier::Thorough => single_plan(run as usize),
        Tier::Quick => {
          if (run as usize) < sp.reference.len() {
            single_plan(sp.reference[run as usize] as usize)
          } else {
            // a stratified sample of the other single faults: one out of every group, chosen by the seed
            let g = run - sp.reference.len() as u64;
            let mut rng = Rng::new(derive(seed, "C12-sample", g));
            let lo = g * QUICK_SAMPLE_DIVISOR;
            let hi = ((g + 1) * QUICK_SAMPLE_DIVISOR).min(sp.others.len() as u64);
            let pick = lo + rng.below((hi - lo).max(1));
            single_plan(sp.others[(pick as usize).min(sp.others.len() - 1)] as usize)
          }
        }
      };
    }
    let mut rng = Rng::new(derive(seed, "C12", run));
    let list = base_list();
    let system = run >= n_single + n_seeded;
    // pairs of structural faults (biased to the same neighbourhood), storage faults, or both
    let base = rng.pick(list).clone();
    let cat = catalogue(&base);
    let singles = single_faults(&cat);
    let mut faults = vec![];
    let roll = rng.index(10);
    if !singles.is_empty() && roll < 5 {
      let i = rng.index(singles.len());
      let j = if rng.chance(2, 3) { (i + 1 + rng.index(12)) % singles.len() } else { rng.index(singles.len()) };
      for k in [i, j] {
        faults.push(json!({"kind": singles[k].0, "index": singles[k].1, "variant": singles[k].2}));
      }
    } else if !singles.is_empty() && roll < 7 {
      let i = rng.index(singles.len());
      faults.push(json!({"kind": singles[i].0, "index": singles[i].1, "variant": singles[i].2}));
      faults.push(gen_storage_fault(&mut rng));
    } else {
      faults.push(gen_storage_fault(&mut rng));
      if rng.chance(1, 3) {
        faults.push(gen_storage_fault(&mut rng));
      }
    }
    if system && rng.chance(1, 3) && !singles.is_empty() {
      // system cases also take plain single reference faults: the classic way to hurt a running service
      let refs: Vec<&(String, usize, usize)> = singles.iter().filter(|s| is_reference_fault(&s.0)).collect();
      if !refs.is_empty() {
        let r = rng.pick(&refs);
        faults = vec![json!({"kind": r.0, "index": r.1, "variant": r.2})];
      }
    }
    json!({"base": base, "faults": faults, "class": if system { "system" } else { "seeded" }})
  }
  fn exec(&self, plan: &Value, _mode: &ExecMode) -> Outcome {
    let plan = plan.clone();
    let r = std::thread::Builder::new().stack_size(8 * 1024 * 1024).spawn(move || C12.exec_inner(&plan)).expect("spawn").join();
    match r {
      Ok(o) => o,
      Err(_) => {
        let mut o = Outcome::default();
        o.harness_error = Some(format!("the case thread panicked outside a guarded operation: {}", take_last_panic()));
        o
      }
    }
  }
  fn shrink(&self, plan: &Value) -> Vec<Value> {
    // drop one fault of a pair; a system case becomes a direct case
    let mut out = vec![];
    let faults = parr(plan, "faults");
    if faults.len() > 1 {
      for i in 0..faults.len() {
        let mut p = plan.clone();
        p["faults"].as_array_mut().unwrap().remove(i);
        out.push(p);
      }
    }
    if pstr(plan, "class") == "system" {
      let mut p = plan.clone();
      p["class"] = json!("seeded");
      out.push(p);
    }
    out
  }
  fn death_signature(&self, plan: &Value, how: &str, hang: bool, marker: Option<&str>) -> Option<String> {
    let (_, desc, _) = faulted_text(plan);
    let rule = if hang { "hang" } else { "process-death" };
    // the discriminating site of a crash without a panic record: what was being attempted (the marker).
    // A crash during an evaluation is first repeated on the UNFAULTED base model with the same invocable
    // and input class: if that dies too, the fault had nothing to do with it.
    if let Some(m) = marker {
      let parts: Vec<&str> = m.splitn(3, '|').collect();
      if parts.len() == 3 && parts[0] == "evaluate" && !parr(plan, "faults").is_empty() {
        let control = json!({"property": "C12", "plan": {"base": pstr(plan, "base"), "faults": [], "class": "control", "only_inv": parts[2], "only_input": parts[1].parse::<u64>().unwrap_or(0)}});
        let out = crate::driver::exec_isolated(self, &control, "fresh", 0, "UTC0");
        if out.violation.as_ref().map(|v| v.rule == rule).unwrap_or(false) {
          return Some(format!("C12:{}:inherent-to-unfaulted-model:{}:{}", rule, pstr(plan, "base"), parts[2]));
        }
      }
      if parts.len() == 3 && parts[0] == "evaluate" && parr(plan, "faults").is_empty() {
        return Some(format!("C12:{}:inherent-to-unfaulted-model:{}:{}", rule, pstr(plan, "base"), parts[2]));
      }
      let phase = parts[0];
      return Some(format!("C12:{}:{}:{}:during-{}", rule, how, desc, phase));
    }
    Some(format!("C12:{}:{}:{}", rule, how, desc))
  }
  fn hang_is_inconclusive(&self, plan: &Value, marker: Option<&str>) -> bool {
    // the simulator's own large inputs (input classes 4..9: long strings, a list, a deep context) can make
    // a decision that iterates over its input do legitimately long work
    if let Some(m) = marker {
      let parts: Vec<&str> = m.splitn(3, '|').collect();
      if parts.len() == 3 && parts[0] == "evaluate" && parts[1].parse::<usize>().map(|i| (4..10).contains(&i)).unwrap_or(false) {
        return true;
      }
    }
    // storage faults can splice digits into a range bound: a time-out there is not evidence of a hang
    parr(plan, "faults").iter().any(|f| edits_of(&catalogue(pstr(plan, "base")), pstr(f, "kind"), pu64(f, "index") as usize, pu64(f, "variant") as usize).is_none())
  }
  fn rule_text(&self) -> String {
    "cases = (base model text, fault list): every single structural fault (delete / duplicate / empty / swap an element, delete / empty / swap attribute values, 11 odd values per model attribute (two of them long multi-byte texts) and 5 per diagram attribute, every id set to the id of the next / previous element of another kind, delete / swap text nodes, 40 odd contents and 12 seeded token soups of the FEEL vocabulary per FEEL text and typeRef, retarget every href to a missing element, to its own owner and to each element requiring the owner within 3 steps, retarget item definition typeRefs to their own definition and to their referrers) at every position of every .dmn file under examples/src plus the simulator's models - all of them in the thorough tier, every reference fault plus a seeded one-in-5 stratified sample of the rest in the quick tier - then seeded pairs and storage faults (truncate, lost write, bit/burst flips, dropped/duplicated/swapped 64-byte blocks, foreign block spliced in, invalid UTF-8), then seeded cases through the directory-load and HTTP paths; distinct = distinct faulted texts (hash); non-trivial = the fault changed the text".to_string()
  }
  fn assumptions(&self) -> Vec<String> {
    vec![
      "nothing is asserted about which error or value comes back, only that something comes back: no panic, no process death, no watchdog expiry (10 s per case; under storage faults an expiry is counted as inconclusive)".to_string(),
      "positions are those roxmltree reports on the unfaulted text".to_string(),
      "evaluation inputs: empty context, per input data a value of the declared kind / a wrong kind / null, and up to two inputs of the base model's compliance tests".to_string(),
    ]
  }
  fn real_stub(&self) -> Value {
    json!({"real": ["dmntk-model parser (roxmltree)", "dmntk-model-evaluator builders", "evaluation of every invocable", "dmntk-workspace directory load (system cases)", "server handlers through the in-process App (system cases)"], "stub": ["storage / transport content faults are produced by the simulator"], "scheduler": "none"})
  }
  fn expected_probes(&self) -> Vec<&'static str> {
    vec!["outcome.parse_error", "outcome.build_error", "outcome.evaluated", "system.http_sequences", "fault.href_to_requirer", "fault.typeref_to_own_definition", "fault.splice_foreign"]
  }
}
