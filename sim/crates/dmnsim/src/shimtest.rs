//! Self-test of the lock shim under the scheduler: small programs with a known verdict.

use crate::core::ExecMode;
use crate::sched::Kind;
use crate::simrt::{run_scheduled, SchedFailure};
use dmntk_verif_sync::atomic::{AtomicBool, AtomicUsize as SimAtomicUsize, Ordering as SimOrdering};
use dmntk_verif_sync::{Condvar, Mutex, OnceLock, RwLock};
use std::sync::atomic::{AtomicUsize, Ordering};
use std::sync::Arc;

#[derive(Clone, Copy)]
enum Expect {
  Clean,
  Deadlock,
  Panic,
}

fn kinds() -> Vec<Kind> {
  vec![Kind::Random, Kind::Pct(1), Kind::Pct(3), Kind::Urw]
}

/// Returns the number of failed expectations.
pub fn run(iterations: u64) -> u64 {
  let mut bad = 0;
  let mut check = |name: &str, expect: Expect, f: fn()| {
    let mut deadlocks = 0;
    let mut panics = 0;
    let mut bound_fair = 0;
    let mut bound_unfair = 0;
    for i in 0..iterations {
      for k in kinds() {
        let r = run_scheduled(&k, 1000 + i, &ExecMode::Fresh, 50_000, f);
        match r.failure {
          None => {}
          Some(SchedFailure::Deadlock(_)) => deadlocks += 1,
          Some(SchedFailure::StepBound) => {
            if k == Kind::Random {
              bound_fair += 1
            } else {
              bound_unfair += 1
            }
          }
          Some(SchedFailure::Panic(_)) => panics += 1,
        }
      }
    }
    let total = iterations * kinds().len() as u64;
    let ok = bound_fair == 0
      && match expect {
        Expect::Clean => deadlocks == 0 && panics == 0,
        Expect::Deadlock => deadlocks > 0 && panics == 0,
        Expect::Panic => panics > 0 && deadlocks == 0,
      };
    println!(
      "shim {:<52} executions={} deadlocks={} panics={} step-bound(fair/unfair scheduler)={}/{} -> {}",
      name,
      total,
      deadlocks,
      panics,
      bound_fair,
      bound_unfair,
      if ok { "ok" } else { "UNEXPECTED" }
    );
    if !ok {
      bad += 1;
    }
  };
  // 1. producer / consumer over Mutex + Condvar: never deadlocks, every item arrives
  check("mutex+condvar producer/consumer", Expect::Clean, || {
    let q = Arc::new((Mutex::new(Vec::<u32>::new()), Condvar::new()));
    let q2 = Arc::clone(&q);
    let producer = shuttle::thread::spawn(move || {
      for i in 0..4 {
        q2.0.lock().unwrap().push(i);
        q2.1.notify_one();
      }
    });
    let mut got = 0;
    while got < 4 {
      let mut g = q.0.lock().unwrap();
      while g.is_empty() {
        g = q.1.wait(g).unwrap();
      }
      got += g.len();
      g.clear();
    }
    producer.join().unwrap();
    assert_eq!(got, 4);
  });
  // 2. re-entrant readers without a writer: never deadlocks
  check("re-entrant read locks, no writer", Expect::Clean, || {
    let l = Arc::new(RwLock::new(7u32));
    let hs: Vec<_> = (0..3)
      .map(|_| {
        let l = Arc::clone(&l);
        shuttle::thread::spawn(move || {
          let a = l.read().unwrap();
          let b = l.read().unwrap();
          let c = l.read().unwrap();
          assert_eq!(*a + *b + *c, 21);
        })
      })
      .collect();
    for h in hs {
      h.join().unwrap();
    }
  });
  // 3. a writer queued behind a re-entrant reader: deadlocks under some schedule (writer preference)
  check("re-entrant read lock with a queued writer", Expect::Deadlock, || {
    let l = Arc::new(RwLock::new(0u32));
    let l2 = Arc::clone(&l);
    let w = shuttle::thread::spawn(move || {
      *l2.write().unwrap() += 1;
    });
    {
      let a = l.read().unwrap();
      let b = l.read().unwrap();
      let _ = *a + *b;
    }
    w.join().unwrap();
  });
  // 4. OnceLock whose initialiser passes scheduling points: initialised exactly once, nobody hangs
  check("OnceLock with a yielding initialiser", Expect::Clean, || {
    static RUNS: AtomicUsize = AtomicUsize::new(0);
    RUNS.store(0, Ordering::SeqCst);
    let cell = Arc::new(OnceLock::<u32>::new());
    let m = Arc::new(Mutex::new(0u32));
    let hs: Vec<_> = (0..3)
      .map(|_| {
        let cell = Arc::clone(&cell);
        let m = Arc::clone(&m);
        shuttle::thread::spawn(move || {
          let v = *cell.get_or_init(|| {
            RUNS.fetch_add(1, Ordering::SeqCst);
            *m.lock().unwrap() += 1; // a scheduling point inside the initialiser
            shuttle::thread::sleep(std::time::Duration::ZERO);
            42
          });
          assert_eq!(v, 42);
        })
      })
      .collect();
    for h in hs {
      h.join().unwrap();
    }
    assert_eq!(RUNS.load(Ordering::SeqCst), 1);
  });
  // 5. lock order inversion of two mutexes: deadlocks under some schedule
  check("two mutexes taken in opposite orders", Expect::Deadlock, || {
    let a = Arc::new(Mutex::new(0u32));
    let b = Arc::new(Mutex::new(0u32));
    let (a2, b2) = (Arc::clone(&a), Arc::clone(&b));
    let t = shuttle::thread::spawn(move || {
      let _x = b2.lock().unwrap();
      let _y = a2.lock().unwrap();
    });
    {
      let _x = a.lock().unwrap();
      let _y = b.lock().unwrap();
    }
    t.join().unwrap();
  });
  // 6. a panic under a write guard poisons, the others carry on (no shuttle call while unwinding)
  check("panic under a write guard poisons, others go on", Expect::Clean, || {
    let l = Arc::new(RwLock::new(0u32));
    let l2 = Arc::clone(&l);
    let t = shuttle::thread::spawn(move || {
      let r = std::panic::catch_unwind(std::panic::AssertUnwindSafe(|| {
        let _g = l2.write().unwrap();
        panic!("dmnsim shim selftest: expected panic");
      }));
      dmntk_verif_sync::flush();
      assert!(r.is_err());
    });
    let _ = l.read().map(|g| *g).unwrap_or_else(|p| *p.into_inner());
    t.join().unwrap();
    assert!(l.is_poisoned());
  });
  // 7. a spin lock whose critical section passes a scheduling point: the spinner lets the holder run
  check("spin lock on an atomic around a scheduling point", Expect::Clean, || {
    static BUSY: AtomicBool = AtomicBool::new(false);
    BUSY.store(false, SimOrdering::SeqCst);
    let m = Arc::new(Mutex::new(0u32));
    let hs: Vec<_> = (0..2)
      .map(|_| {
        let m = Arc::clone(&m);
        shuttle::thread::spawn(move || {
          while BUSY.swap(true, SimOrdering::Acquire) {
            std::hint::spin_loop();
          }
          *m.lock().unwrap() += 1;
          BUSY.store(false, SimOrdering::Release);
        })
      })
      .collect();
    for h in hs {
      h.join().unwrap();
    }
    assert_eq!(*m.lock().unwrap(), 2);
  });
  // 8. check-then-act on an atomic flag: both tasks pass the check under some schedule
  check("check-then-act on an atomic flag", Expect::Panic, || {
    static CLAIMED: AtomicBool = AtomicBool::new(false);
    static OWNERS: SimAtomicUsize = SimAtomicUsize::new(0);
    CLAIMED.store(false, SimOrdering::SeqCst);
    OWNERS.store(0, SimOrdering::SeqCst);
    let hs: Vec<_> = (0..2)
      .map(|_| {
        shuttle::thread::spawn(|| {
          if !CLAIMED.load(SimOrdering::Acquire) {
            CLAIMED.store(true, SimOrdering::Release);
            OWNERS.fetch_add(1, SimOrdering::SeqCst);
          }
        })
      })
      .collect();
    for h in hs {
      h.join().unwrap();
    }
    assert_eq!(OWNERS.load(SimOrdering::SeqCst), 1, "dmnsim shim selftest: expected under some schedule");
  });
  bad
}
