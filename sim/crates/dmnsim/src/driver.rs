//! Parent side: block pool of crash-isolated children, merging, minimisation, replay files,
//! known findings, evidence. Child side: the run loop and the single-plan executor.

use crate::core::*;
use serde_json::{json, Value};
use std::collections::{BTreeMap, BTreeSet, HashSet};
use std::io::{BufRead, BufReader, Write};
use std::path::{Path, PathBuf};
use std::process::{Command, Stdio};
use std::sync::mpsc;
use std::sync::{Arc, Mutex};
use std::time::{Duration, Instant};

// ------------------------------------------------------------------------------------------------
// panic capture
// ------------------------------------------------------------------------------------------------

static LAST_PANIC: Mutex<Option<String>> = Mutex::new(None);

/// Installs a silent panic hook that records `location: message` of the last panic.
pub fn install_panic_hook() {
  std::panic::set_hook(Box::new(|info| {
    let location = info.location().map(|l| format!("{}:{}", l.file(), l.line())).unwrap_or_else(|| "?".to_string());
    let message = if let Some(s) = info.payload().downcast_ref::<&str>() {
      s.to_string()
    } else if let Some(s) = info.payload().downcast_ref::<String>() {
      s.clone()
    } else {
      "<non-string payload>".to_string()
    };
    let head: String = message.chars().take(160).collect();
    if let Ok(mut g) = LAST_PANIC.lock() {
      *g = Some(format!("{}: {}", location, head));
    }
  }));
}

/// Takes the record of the last panic.
pub fn take_last_panic() -> String {
  LAST_PANIC.lock().ok().and_then(|mut g| g.take()).unwrap_or_else(|| "?: <no panic record>".to_string())
}

/// Shortens a panic record to a site usable in signatures: path below the repository + message head
/// with digits removed (so that differing indexes do not make differing signatures).
pub fn panic_site(record: &str) -> String {
  let mut s = record.to_string();
  if let Some(pos) = s.find("target/repo-copy/") {
    // the mirror of the repository the simulator is built from
    s = s[pos + "target/repo-copy/".len()..].to_string();
  }
  for root in [std::env::var("VERIF_REPO").unwrap_or_else(|_| "/repo".to_string()), "/repo".to_string()] {
    s = s.replace(&format!("{}/", root), "");
  }
  if let Some(pos) = s.find("/registry/src/") {
    // third-party crate: keep crate-relative path
    let tail = &s[pos + "/registry/src/".len()..];
    s = tail.splitn(2, '/').nth(1).unwrap_or(tail).to_string();
  }
  let (loc, msg) = match s.find(": ") {
    Some(i) => (s[..i].to_string(), s[i + 2..].to_string()),
    None => (s.clone(), String::new()),
  };
  let msg: String = msg.chars().filter(|c| !c.is_ascii_digit()).take(60).collect();
  format!("{} [{}]", loc, msg.trim())
}

// ------------------------------------------------------------------------------------------------
// outcome (de)serialisation for the protocol
// ------------------------------------------------------------------------------------------------

pub fn outcome_to_json(o: &Outcome) -> Value {
  json!({
    "violation": o.violation.as_ref().map(|v| v.to_json()),
    "counters": o.counters.to_json(),
    "log_hash": o.log_hash,
    "distinct_keys": o.distinct_keys,
    "schedule": o.schedule,
    "log_tail": o.log_tail,
    "harness_error": o.harness_error,
  })
}

pub fn outcome_from_json(v: &Value) -> Outcome {
  Outcome {
    violation: v.get("violation").and_then(Violation::from_json),
    counters: Counters::from_json(v.get("counters").unwrap_or(&Value::Null)),
    log_hash: pu64(v, "log_hash"),
    distinct_keys: parr(v, "distinct_keys").iter().filter_map(|x| x.as_u64()).collect(),
    schedule: v.get("schedule").cloned().filter(|s| !s.is_null()),
    log_tail: parr(v, "log_tail").iter().filter_map(|x| x.as_str().map(|s| s.to_string())).collect(),
    harness_error: v.get("harness_error").and_then(|x| x.as_str()).map(|s| s.to_string()),
  }
}

/// Progress marker of the running case ("what is being attempted now"); when the process dies the
/// parent knows the last one.
pub fn mark(text: &str) {
  emit(&format!("at {}", text));
}

fn emit(line: &str) {
  let out = std::io::stdout();
  let mut lock = out.lock();
  let _ = writeln!(lock, "{}{}", SENTINEL, line);
  let _ = lock.flush();
}

// ------------------------------------------------------------------------------------------------
// child side
// ------------------------------------------------------------------------------------------------

/// `dmnsim child <ID> --tier T --seed S --from A --to B [--skip i,j]`
pub fn child_main(sim: &dyn Sim, tier: Tier, seed: u64, from: u64, to: u64, skip: &BTreeSet<u64>, hashes: bool) -> i32 {
  install_panic_hook();
  sim.child_setup();
  let mut agg = Counters::default();
  let mut keys: Vec<u64> = vec![];
  let mut runs_done: u64 = 0;
  let flush_every = 64;
  let mut since_flush = 0;
  let mut log_hashes: Vec<(u64, u64)> = vec![];
  for i in from..to {
    if skip.contains(&i) {
      continue;
    }
    emit(&format!("start {}", i));
    let plan = sim.gen_plan(seed, i, tier);
    let outcome = sim.exec(&plan, &ExecMode::Fresh);
    runs_done += 1;
    since_flush += 1;
    agg.merge(&outcome.counters);
    keys.extend_from_slice(&outcome.distinct_keys);
    if hashes {
      log_hashes.push((i, outcome.log_hash));
    }
    if let Some(e) = &outcome.harness_error {
      emit(&format!("herr {} {}", i, json!(e)));
    }
    if outcome.violation.is_some() {
      let mut o = outcome.clone();
      o.counters = Counters::default();
      o.distinct_keys = vec![];
      emit(&format!("viol {} {}", i, outcome_to_json(&o)));
    }
    if since_flush >= flush_every {
      keys.sort_unstable();
      keys.dedup();
      emit(&format!(
        "agg {} {}",
        i,
        json!({"runs": runs_done, "counters": agg.to_json(), "keys": keys, "hashes": log_hashes})
      ));
      agg = Counters::default();
      keys.clear();
      log_hashes.clear();
      runs_done = 0;
      since_flush = 0;
    }
  }
  keys.sort_unstable();
  keys.dedup();
  emit(&format!(
    "agg {} {}",
    to.saturating_sub(1),
    json!({"runs": runs_done, "counters": agg.to_json(), "keys": keys, "hashes": log_hashes})
  ));
  emit("end");
  0
}

/// `dmnsim exec-plan <file> <mode> [reseeds]`: executes one plan, prints the first violating
/// outcome (or the last outcome when none violates).
pub fn exec_plan_main(sim: &dyn Sim, file: &Path, mode: &str, reseeds: u64) -> i32 {
  install_panic_hook();
  let text = match std::fs::read_to_string(file) {
    Ok(t) => t,
    Err(e) => {
      emit(&format!("herr 0 {}", json!(format!("cannot read {}: {}", file.display(), e))));
      return 2;
    }
  };
  let doc: Value = match serde_json::from_str(&text) {
    Ok(v) => v,
    Err(e) => {
      emit(&format!("herr 0 {}", json!(format!("cannot parse {}: {}", file.display(), e))));
      return 2;
    }
  };
  let plan = doc.get("plan").cloned().unwrap_or(Value::Null);
  sim.child_setup();
  let mut modes: Vec<ExecMode> = vec![];
  match mode {
    "replay" => match doc.get("schedule").cloned().filter(|s| !s.is_null()) {
      Some(s) => modes.push(ExecMode::Replay(s)),
      None => modes.push(ExecMode::Fresh),
    },
    _ => {
      modes.push(ExecMode::Fresh);
      for k in 0..reseeds {
        modes.push(ExecMode::Reseed(k));
      }
    }
  }
  // A run may depend on what the runs before it in the same child process left behind in process-wide state
  // (a cache in a static, say). Such a replay document names the first run of its block: the runs from there up to
  // the recorded one are executed first, in this process, exactly as the batch executed them.
  if let Some(prefix) = doc.get("prefix").filter(|p| p.is_object()) {
    if let Some(tier) = Tier::parse(pstr(&doc, "tier")) {
      let seed = pu64(&doc, "seed");
      for i in pu64(prefix, "from")..pu64(&doc, "run") {
        emit(&format!("start {}", i));
        let plan = sim.gen_plan(seed, i, tier);
        let _ = sim.exec(&plan, &ExecMode::Fresh);
      }
    }
  }
  let mut last = Outcome::default();
  for (n, m) in modes.iter().enumerate() {
    emit(&format!("start {}", n));
    last = sim.exec(&plan, m);
    if last.violation.is_some() || last.harness_error.is_some() {
      break;
    }
  }
  emit(&format!("result {}", outcome_to_json(&last)));
  emit("end");
  0
}

// ------------------------------------------------------------------------------------------------
// parent side: running children
// ------------------------------------------------------------------------------------------------

fn self_exe() -> PathBuf {
  std::env::current_exe().expect("current_exe")
}

enum ChildEnd {
  Clean,
  Died(String),
  Hung,
}

struct ChildReport {
  end: ChildEnd,
  /// Run that was started and not finished when the child ended abnormally.
  current: Option<u64>,
  /// Last progress marker of that run.
  marker: Option<String>,
}

/// Spawns a child with the given arguments and TZ; collects protocol lines; enforces the watchdog
/// measured from the last received protocol line.
fn run_child(args: &[String], tz: &str, watchdog: Duration, mut on_line: impl FnMut(&str, &str)) -> ChildReport {
  let mut cmd = Command::new(self_exe());
  cmd.args(args).env("TZ", tz).stdin(Stdio::null()).stdout(Stdio::piped()).stderr(Stdio::null());
  let mut child = match cmd.spawn() {
    Ok(c) => c,
    Err(e) => {
      return ChildReport {
        end: ChildEnd::Died(format!("spawn failed: {}", e)),
        current: None,
        marker: None,
      }
    }
  };
  let stdout = child.stdout.take().expect("piped stdout");
  let (tx, rx) = mpsc::channel::<Option<String>>();
  let reader = std::thread::spawn(move || {
    let mut r = BufReader::new(stdout);
    let mut buf: Vec<u8> = vec![];
    loop {
      buf.clear();
      match r.read_until(b'\n', &mut buf) {
        Ok(0) | Err(_) => {
          let _ = tx.send(None);
          break;
        }
        Ok(_) => {
          let line = String::from_utf8_lossy(&buf);
          if let Some(rest) = line.strip_prefix(SENTINEL) {
            if tx.send(Some(rest.trim_end().to_string())).is_err() {
              break;
            }
          }
        }
      }
    }
  });
  let mut current: Option<u64> = None;
  let mut marker: Option<String> = None;
  let mut clean = false;
  let mut hung = false;
  loop {
    match rx.recv_timeout(watchdog) {
      Ok(Some(line)) => {
        let (kind, rest) = match line.find(' ') {
          Some(i) => (&line[..i], &line[i + 1..]),
          None => (line.as_str(), ""),
        };
        match kind {
          "start" => {
            current = rest.trim().parse::<u64>().ok();
            marker = None;
          }
          "at" => {
            marker = Some(rest.to_string());
            continue;
          }
          "end" => {
            clean = true;
          }
          _ => {}
        }
        on_line(kind, rest);
      }
      Ok(None) => break,
      Err(mpsc::RecvTimeoutError::Timeout) => {
        hung = true;
        let _ = child.kill();
        break;
      }
      Err(mpsc::RecvTimeoutError::Disconnected) => break,
    }
  }
  let status = child.wait();
  let _ = reader.join();
  let end = if hung {
    ChildEnd::Hung
  } else if clean {
    ChildEnd::Clean
  } else {
    let how = match status {
      Ok(s) => {
        use std::os::unix::process::ExitStatusExt;
        match s.signal() {
          Some(11) => "SIGSEGV".to_string(),
          Some(6) => "SIGABRT".to_string(),
          Some(n) => format!("signal {}", n),
          None => format!("exit {}", s.code().unwrap_or(-1)),
        }
      }
      Err(e) => format!("wait failed: {}", e),
    };
    ChildEnd::Died(how)
  };
  ChildReport { end, current, marker }
}

/// Result of one block.
#[derive(Default)]
struct BlockResult {
  runs: u64,
  counters: Counters,
  keys: Vec<u64>,
  hashes: Vec<(u64, u64)>,
  /// (run, outcome-with-violation)
  violations: Vec<(u64, Outcome)>,
  harness_errors: Vec<String>,
}

fn death_violation(sim: &dyn Sim, plan: &Value, how: &str, hang: bool, marker: Option<&str>) -> Violation {
  let rule = if hang { "hang" } else { "process-death" };
  Violation::new(
    rule,
    sim.death_signature(plan, how, hang, marker).unwrap_or_else(|| format!("{}:{}:{}", sim.id(), rule, how)),
    0,
    "the run finishes and the process survives",
    if hang {
      format!("no progress within the watchdog of {} ms (last marker: {})", sim.watchdog_ms(), marker.unwrap_or("none"))
    } else {
      format!("child process ended with {} (last marker: {})", how, marker.unwrap_or("none"))
    },
  )
}

fn run_block(sim: &dyn Sim, tier: Tier, seed: u64, from: u64, to: u64, tz: &str, want_hashes: bool) -> BlockResult {
  let mut result = BlockResult::default();
  let mut skip: BTreeSet<u64> = BTreeSet::new();
  let mut flushed_upto: Option<u64> = None; // last run index covered by an agg line
  let mut seen_viol: BTreeSet<u64> = BTreeSet::new();
  let mut restarts = 0;
  loop {
    let start_from = flushed_upto.map(|u| u + 1).unwrap_or(from);
    if start_from >= to {
      break;
    }
    let mut args: Vec<String> = vec![
      "child".into(),
      sim.id().into(),
      "--tier".into(),
      tier.name().into(),
      "--seed".into(),
      seed.to_string(),
      "--from".into(),
      start_from.to_string(),
      "--to".into(),
      to.to_string(),
    ];
    if !skip.is_empty() {
      args.push("--skip".into());
      args.push(skip.iter().map(|x| x.to_string()).collect::<Vec<_>>().join(","));
    }
    if want_hashes {
      args.push("--hashes".into());
    }
    let mut pending: Vec<(String, String)> = vec![];
    let report = run_child(&args, tz, Duration::from_millis(sim.watchdog_ms()), |kind, rest| {
      pending.push((kind.to_string(), rest.to_string()));
    });
    for (kind, rest) in pending {
      match kind.as_str() {
        "agg" => {
          if let Some(i) = rest.find(' ') {
            if let (Ok(upto), Ok(v)) = (rest[..i].parse::<u64>(), serde_json::from_str::<Value>(&rest[i + 1..])) {
              result.runs += pu64(&v, "runs");
              result.counters.merge(&Counters::from_json(v.get("counters").unwrap_or(&Value::Null)));
              result.keys.extend(parr(&v, "keys").iter().filter_map(|x| x.as_u64()));
              for h in parr(&v, "hashes") {
                if let (Some(a), Some(b)) = (h.get(0).and_then(|x| x.as_u64()), h.get(1).and_then(|x| x.as_u64())) {
                  result.hashes.push((a, b));
                }
              }
              flushed_upto = Some(upto);
            }
          }
        }
        "viol" => {
          if let Some(i) = rest.find(' ') {
            if let (Ok(run), Ok(v)) = (rest[..i].parse::<u64>(), serde_json::from_str::<Value>(&rest[i + 1..])) {
              if seen_viol.insert(run) {
                result.violations.push((run, outcome_from_json(&v)));
              }
            }
          }
        }
        "herr" => result.harness_errors.push(rest.to_string()),
        _ => {}
      }
    }
    if matches!(report.end, ChildEnd::Clean) {
      break;
    }
    let (how, hang) = match &report.end {
      ChildEnd::Died(how) => (how.clone(), false),
      _ => ("watchdog".to_string(), true),
    };
    let run = match report.current {
      Some(r) => r,
      None => {
        result.harness_errors.push(format!("child for runs {}..{} ended before starting a run: {}", start_from, to, how));
        break;
      }
    };
    if seen_viol.insert(run) {
      let plan = sim.gen_plan(seed, run, tier);
      if hang && sim.hang_is_inconclusive(&plan, report.marker.as_deref()) {
        result.counters.inc("inconclusive.watchdog_expiry");
      } else {
        let mut o = Outcome::default();
        o.violation = Some(death_violation(sim, &plan, &how, hang, report.marker.as_deref()));
        result.violations.push((run, o));
        result.counters.inc(if hang { "crash.hang" } else { "crash.process_death" });
      }
      result.runs += 1;
    }
    skip.insert(run);
    restarts += 1;
    if restarts > 200 {
      result.harness_errors.push(format!("block {}..{}: more than 200 child restarts, giving up", from, to));
      break;
    }
  }
  result
}

/// Executes one plan in a fresh child process; death and hang become violations.
pub fn exec_isolated(sim: &dyn Sim, doc: &Value, mode: &str, reseeds: u64, tz: &str) -> Outcome {
  let dir = scratch_dir();
  let file = dir.join(format!("plan-{}-{}.json", std::process::id(), next_serial()));
  if let Err(e) = std::fs::write(&file, serde_json::to_vec(doc).unwrap_or_default()) {
    let mut o = Outcome::default();
    o.harness_error = Some(format!("cannot write {}: {}", file.display(), e));
    return o;
  }
  let args: Vec<String> = vec![
    "exec-plan".into(),
    sim.id().into(),
    file.to_string_lossy().to_string(),
    mode.into(),
    reseeds.to_string(),
  ];
  let mut result: Option<Outcome> = None;
  let mut herr: Option<String> = None;
  let watchdog = Duration::from_millis(sim.watchdog_ms());
  let report = run_child(&args, tz, watchdog, |kind, rest| match kind {
    "result" => {
      if let Ok(v) = serde_json::from_str::<Value>(rest) {
        result = Some(outcome_from_json(&v));
      }
    }
    "herr" => herr = Some(rest.to_string()),
    _ => {}
  });
  let _ = std::fs::remove_file(&file);
  match report.end {
    ChildEnd::Clean => result.unwrap_or_else(|| {
      let mut o = Outcome::default();
      o.harness_error = Some(herr.unwrap_or_else(|| "child ended cleanly without a result".to_string()));
      o
    }),
    ChildEnd::Died(how) => {
      let mut o = Outcome::default();
      if report.current.is_none() {
        o.harness_error = Some(format!("exec-plan child ended before starting: {} {}", how, herr.unwrap_or_default()));
      } else {
        o.violation = Some(death_violation(sim, doc.get("plan").unwrap_or(&Value::Null), &how, false, report.marker.as_deref()));
      }
      o
    }
    ChildEnd::Hung => {
      let mut o = Outcome::default();
      let plan = doc.get("plan").cloned().unwrap_or(Value::Null);
      if !sim.hang_is_inconclusive(&plan, report.marker.as_deref()) {
        o.violation = Some(death_violation(sim, &plan, "watchdog", true, report.marker.as_deref()));
      }
      o
    }
  }
}

static SERIAL: std::sync::atomic::AtomicU64 = std::sync::atomic::AtomicU64::new(0);
fn next_serial() -> u64 {
  SERIAL.fetch_add(1, std::sync::atomic::Ordering::SeqCst)
}

/// Scratch directory for transient files of a run (directories the simulated service restarts from, plan
/// files of isolated executions): memory backed when /dev/shm is there, else under the simulator's target
/// directory. Nothing in it outlives the command that wrote it.
pub fn scratch_dir() -> PathBuf {
  static DIR: std::sync::OnceLock<PathBuf> = std::sync::OnceLock::new();
  DIR
    .get_or_init(|| {
      let shm = PathBuf::from("/dev/shm").join(format!("dmnsim-scratch-{}", unsafe { libc::getuid() }));
      if std::fs::create_dir_all(&shm).is_ok() && std::fs::write(shm.join(".probe"), b"x").is_ok() {
        let _ = std::fs::remove_file(shm.join(".probe"));
        return shm;
      }
      let base = std::env::var("VERIF_SIM").map(PathBuf::from).unwrap_or_else(|_| PathBuf::from("/verif/sim"));
      let dir = base.join("target").join("scratch");
      let _ = std::fs::create_dir_all(&dir);
      dir
    })
    .clone()
}

/// Removes scratch entries left behind by processes that no longer exist (children that died mid-run).
pub fn sweep_scratch() {
  if let Ok(rd) = std::fs::read_dir(scratch_dir()) {
    for e in rd.filter_map(|e| e.ok()) {
      let name = e.file_name().to_string_lossy().to_string();
      // names are <kind>-<pid>[-<serial>...]
      let pid = name.split('-').nth(1).and_then(|p| p.parse::<u32>().ok());
      if let Some(pid) = pid {
        if !std::path::Path::new(&format!("/proc/{}", pid)).exists() {
          let p = e.path();
          if p.is_dir() {
            let _ = std::fs::remove_dir_all(&p);
          } else {
            let _ = std::fs::remove_file(&p);
          }
        }
      }
    }
  }
}

pub fn verif_dir() -> PathBuf {
  std::env::var("VERIF_DIR").map(PathBuf::from).unwrap_or_else(|_| PathBuf::from("/verif"))
}

// ------------------------------------------------------------------------------------------------
// known findings
// ------------------------------------------------------------------------------------------------

#[derive(Clone, Debug)]
pub struct Finding {
  pub status: String,
  pub property: String,
  pub signature: String,
  pub what: String,
}

pub fn load_findings() -> Vec<Finding> {
  let path = verif_dir().join("known_findings.jsonl");
  let mut out = vec![];
  if let Ok(text) = std::fs::read_to_string(path) {
    for line in text.lines() {
      let line = line.trim();
      if line.is_empty() || line.starts_with('#') {
        continue;
      }
      if let Ok(v) = serde_json::from_str::<Value>(line) {
        out.push(Finding {
          status: pstr(&v, "status").to_string(),
          property: pstr(&v, "property").to_string(),
          signature: pstr(&v, "signature").to_string(),
          what: pstr(&v, "what").to_string(),
        });
      }
    }
  }
  out
}

// ------------------------------------------------------------------------------------------------
// minimisation
// ------------------------------------------------------------------------------------------------

fn same_class(a: &Violation, b: &Violation) -> bool {
  a.signature == b.signature
}

/// Delta-debugging over the plan; every candidate runs in a fresh child.
fn minimise(sim: &dyn Sim, doc: &Value, viol: &Violation, tz: &str, budget: Duration, max_execs: u64) -> (Value, Outcome, u64) {
  let started = Instant::now();
  let mut best_doc = doc.clone();
  let mut best_out: Option<Outcome> = None;
  let mut execs = 0u64;
  let reseeds = sim.reseeds_when_shrinking();
  'outer: loop {
    let plan = best_doc.get("plan").cloned().unwrap_or(Value::Null);
    for cand in sim.shrink(&plan) {
      if started.elapsed() > budget || execs >= max_execs {
        break 'outer;
      }
      let mut cand_doc = best_doc.clone();
      cand_doc["plan"] = cand;
      cand_doc["schedule"] = Value::Null;
      let out = exec_isolated(sim, &cand_doc, "fresh", reseeds, tz);
      execs += 1;
      if let Some(v) = &out.violation {
        if same_class(v, viol) {
          cand_doc["schedule"] = out.schedule.clone().unwrap_or(Value::Null);
          best_doc = cand_doc;
          best_out = Some(out);
          continue 'outer;
        }
      }
    }
    break;
  }
  let out = best_out.unwrap_or_default();
  (best_doc, out, execs)
}

// ------------------------------------------------------------------------------------------------
// parent side: a whole batch
// ------------------------------------------------------------------------------------------------

pub struct BatchOptions {
  pub tier: Tier,
  pub seed: u64,
  pub jobs: usize,
  pub runs_override: Option<u64>,
  pub max_wall: Duration,
  pub want_hashes: bool,
  pub write_evidence: bool,
}

pub struct BatchSummary {
  pub runs: u64,
  pub counters: Counters,
  pub distinct: u64,
  pub hashes: BTreeMap<u64, u64>,
  pub violations: Vec<(u64, Outcome)>,
  pub harness_errors: Vec<String>,
  pub wall: Duration,
  pub blocks_skipped_by_wall_cap: u64,
}

pub fn run_batch_raw(sim: &'static dyn Sim, opt: &BatchOptions) -> BatchSummary {
  let started = Instant::now();
  let runs = opt.runs_override.unwrap_or_else(|| sim.runs(opt.tier));
  let block = sim.block(opt.tier).max(1);
  let nblocks = (runs + block - 1) / block;
  let next = Arc::new(Mutex::new(0u64));
  let results: Arc<Mutex<BTreeMap<u64, BlockResult>>> = Arc::new(Mutex::new(BTreeMap::new()));
  let skipped = Arc::new(Mutex::new(0u64));
  let mut handles = vec![];
  for _ in 0..opt.jobs.max(1) {
    let next = Arc::clone(&next);
    let results = Arc::clone(&results);
    let skipped = Arc::clone(&skipped);
    let tier = opt.tier;
    let seed = opt.seed;
    let max_wall = opt.max_wall;
    let want_hashes = opt.want_hashes;
    handles.push(std::thread::spawn(move || loop {
      let b = {
        let mut g = next.lock().unwrap();
        let b = *g;
        if b >= nblocks {
          break;
        }
        *g += 1;
        b
      };
      if started.elapsed() > max_wall {
        *skipped.lock().unwrap() += 1;
        continue;
      }
      let from = b * block;
      let to = ((b + 1) * block).min(runs);
      let r = run_block(sim, tier, seed, from, to, sim.tz_of_block(b), want_hashes);
      results.lock().unwrap().insert(b, r);
    }));
  }
  for h in handles {
    let _ = h.join();
  }
  let mut summary = BatchSummary {
    runs: 0,
    counters: Counters::default(),
    distinct: 0,
    hashes: BTreeMap::new(),
    violations: vec![],
    harness_errors: vec![],
    wall: Duration::ZERO,
    blocks_skipped_by_wall_cap: *skipped.lock().unwrap(),
  };
  let mut keys: HashSet<u64> = HashSet::new();
  let results = std::mem::take(&mut *results.lock().unwrap());
  for (_, r) in results {
    summary.runs += r.runs;
    summary.counters.merge(&r.counters);
    keys.extend(r.keys);
    for (i, h) in r.hashes {
      summary.hashes.insert(i, h);
    }
    summary.violations.extend(r.violations);
    summary.harness_errors.extend(r.harness_errors);
  }
  summary.violations.sort_by_key(|(run, _)| *run);
  summary.distinct = keys.len() as u64;
  summary.wall = started.elapsed();
  summary
}

fn sanitize(s: &str) -> String {
  let t: String = s.chars().map(|c| if c.is_ascii_alphanumeric() || c == '-' || c == '_' || c == '.' { c } else { '_' }).collect();
  t.chars().take(80).collect()
}

/// Makes the replay document of a run.
fn replay_doc(sim: &dyn Sim, tier: Tier, seed: u64, run: u64, tz: &str, plan: Value, out: &Outcome) -> Value {
  json!({
    "property": sim.id(),
    "tier": tier.name(),
    "seed": seed,
    "run": run,
    "tz": tz,
    "plan": plan,
    "schedule": out.schedule,
    "violation": out.violation.as_ref().map(|v| v.to_json()),
    "event_log_tail": out.log_tail,
  })
}

/// Runs the batch of a property, triages violations, writes evidence, returns the exit code.
pub fn run_check(sim: &'static dyn Sim, opt: &BatchOptions) -> i32 {
  println!("{} {}: seed={} jobs={} runs={}", sim.id(), opt.tier.name(), opt.seed, opt.jobs, opt.runs_override.unwrap_or_else(|| sim.runs(opt.tier)));
  let summary = run_batch_raw(sim, opt);
  let block = sim.block(opt.tier).max(1);
  let findings = load_findings();
  let mut exit = 0;
  let mut reported: Vec<Value> = vec![];
  let mut known_hit: BTreeSet<String> = BTreeSet::new();
  let mut new_violations = 0u64;

  // extra pass (may add violations that carry their own plan)
  let extra = sim.extra_pass(opt.tier, opt.seed);

  // group by signature, lowest run first
  let mut by_sig: BTreeMap<String, Vec<(u64, Outcome)>> = BTreeMap::new();
  for (run, o) in &summary.violations {
    if let Some(v) = &o.violation {
      by_sig.entry(v.signature.clone()).or_default().push((*run, o.clone()));
    }
  }
  let triage_started = Instant::now();
  let mut triaged = 0usize;
  for (sig, list) in &by_sig {
    triaged += 1;
    if triaged > 24 {
      println!("... {} more violation signature(s) not triaged individually (see evidence)", by_sig.len() - 24);
      break;
    }
    let (run, out) = &list[0];
    let viol = out.violation.clone().unwrap();
    let tz = sim.tz_of_block(run / block);
    let plan = sim.gen_plan(opt.seed, *run, opt.tier);
    let doc0 = replay_doc(sim, opt.tier, opt.seed, *run, tz, plan, out);
    // known finding? (decided on the signature, before any expensive work)
    if let Some(f) = findings.iter().find(|f| f.status == "open" && f.property == sim.id() && &f.signature == sig) {
      if known_hit.insert(sig.clone()) {
        println!("KNOWN-FINDING: property={} {} [signature {}; {} run(s), first run {}]", sim.id(), f.what, sig, list.len(), run);
      }
      reported.push(json!({"signature": sig, "runs": list.len(), "first_run": run, "known_finding": true}));
      continue;
    }
    // minimise (bounded), then verify the replay in a fresh process
    // the first signatures are minimised thoroughly, later ones briefly, the rest only replay-verified
    let budget = if triaged > 6 || triage_started.elapsed() > Duration::from_secs(180) { Duration::ZERO } else { Duration::from_secs(40) };
    let (min_doc, min_out, execs) = if budget.is_zero() { (doc0.clone(), Outcome::default(), 0) } else { minimise(sim, &doc0, &viol, tz, budget, 400) };
    let (final_doc, final_viol) = if let Some(v) = &min_out.violation {
      let mut d = min_doc.clone();
      d["violation"] = v.to_json();
      d["event_log_tail"] = json!(min_out.log_tail);
      d["minimised"] = json!({"candidate_executions": execs, "from_run": run});
      (d, v.clone())
    } else {
      (doc0.clone(), viol.clone())
    };
    let replayed = exec_isolated(sim, &final_doc, "replay", 0, tz);
    let reproduced = replayed
      .violation
      .as_ref()
      .map(|v| v.signature == final_viol.signature && v.event_index == final_viol.event_index)
      .unwrap_or(false);
    let dir = verif_dir().join("replays").join(sim.id());
    let _ = std::fs::create_dir_all(&dir);
    let path = dir.join(format!("{}-{}-{}.json", sanitize(sig), opt.seed, run));
    let _ = std::fs::write(&path, serde_json::to_string_pretty(&final_doc).unwrap_or_default());
    // not reproduced by the run alone: with the runs of its block before it (process-wide state)?
    let (reproduced, final_doc, final_viol) = if reproduced {
      (true, final_doc, final_viol)
    } else {
      let mut d = doc0.clone();
      d["prefix"] = json!({"from": (run / block) * block, "why": "the violation depends on state the process keeps between runs: the runs of the block before this one are executed first"});
      let again = exec_isolated(sim, &d, "replay", 0, tz);
      let ok = again.violation.as_ref().map(|v| v.signature == viol.signature && v.event_index == viol.event_index).unwrap_or(false);
      if ok {
        let _ = std::fs::write(&path, serde_json::to_string_pretty(&d).unwrap_or_default());
        println!("note: run {} violates only after the runs {}..{} of its block (state kept by the process between runs); the replay file executes them first", run, (run / block) * block, run);
        (true, d, viol.clone())
      } else {
        (false, final_doc, final_viol)
      }
    };
    let _ = &final_doc;
    if reproduced {
      println!("VIOLATION property={} replay={}", sim.id(), path.display());
      println!("  rule={} signature={} event={} runs_with_this_signature={}", final_viol.rule, final_viol.signature, final_viol.event_index, list.len());
      println!("  expected: {}", truncate(&final_viol.expected, 400));
      println!("  observed: {}", truncate(&final_viol.observed, 400));
      new_violations += 1;
      exit = 1;
      reported.push(json!({"signature": sig, "runs": list.len(), "first_run": run, "replay": path.to_string_lossy(), "known_finding": false}));
    } else {
      println!(
        "HARNESS-ERROR property={} a violation did not replay (signature {}, run {}): observed on replay {:?}; file {}",
        sim.id(),
        sig,
        run,
        replayed.violation.as_ref().map(|v| (&v.signature, v.event_index)),
        path.display()
      );
      if exit == 0 {
        exit = 2;
      }
    }
  }
  if let Some(extra) = &extra {
    for (doc, v) in &extra.violations {
      if let Some(f) = findings.iter().find(|f| f.status == "open" && f.property == sim.id() && f.signature == v.signature) {
        if known_hit.insert(v.signature.clone()) {
          println!("KNOWN-FINDING: property={} {} [signature {}; pass {}]", sim.id(), f.what, v.signature, extra.name);
        }
        continue;
      }
      if by_sig.contains_key(&v.signature) || !known_hit.insert(format!("extra:{}", v.signature)) {
        // one report per signature
        continue;
      }
      let dir = verif_dir().join("replays").join(sim.id());
      let _ = std::fs::create_dir_all(&dir);
      let path = dir.join(format!("{}-{}-{}.json", sanitize(&v.signature), opt.seed, extra.name));
      let _ = std::fs::write(&path, serde_json::to_string_pretty(doc).unwrap_or_default());
      println!("VIOLATION property={} replay={}", sim.id(), path.display());
      println!("  rule={} signature={} (pass {})", v.rule, v.signature, extra.name);
      println!("  expected: {}", truncate(&v.expected, 400));
      println!("  observed: {}", truncate(&v.observed, 400));
      new_violations += 1;
      exit = 1;
    }
  }
  for e in summary.harness_errors.iter().take(10) {
    println!("HARNESS-ERROR property={} {}", sim.id(), e);
  }
  if !summary.harness_errors.is_empty() && exit == 0 {
    exit = 2;
  }
  if summary.runs == 0 && exit == 0 {
    println!("HARNESS-ERROR property={} no run was executed", sim.id());
    exit = 2;
  }
  // probes
  if opt.tier == Tier::Thorough {
    for p in sim.expected_probes() {
      if summary.counters.get(p) == 0 {
        println!("WARNING property={} probe {} stayed at zero in the thorough tier", sim.id(), p);
      }
    }
  }
  sweep_scratch();
  let wall = summary.wall.as_secs_f64();
  println!(
    "{} {}: {} runs in {:.1}s ({:.0} runs/hour), {} distinct non-trivial, {} violating run(s) in {} signature(s), {} new, {} known",
    sim.id(),
    opt.tier.name(),
    summary.runs,
    wall,
    if wall > 0.0 { summary.runs as f64 * 3600.0 / wall } else { 0.0 },
    summary.distinct,
    summary.violations.len(),
    by_sig.len(),
    new_violations,
    known_hit.len()
  );
  if opt.write_evidence {
    // samples spread over the batch (its parts differ: enumerated, sampled, seeded, system cases)
    let total = opt.runs_override.unwrap_or_else(|| sim.runs(opt.tier)).max(1);
    let mut sample_runs: Vec<u64> = vec![0, total / 3, 2 * total / 3, total - 1];
    sample_runs.dedup();
    let samples: Vec<Value> = sample_runs.into_iter().map(|i| json!({"run": i, "plan": shorten(&sim.gen_plan(opt.seed, i, opt.tier))})).collect();
    let mut coverage = json!({
      "evaluations": summary.runs,
      "distinct_nontrivial": summary.distinct,
      "rule": sim.rule_text(),
      "samples": samples,
      "runs_per_hour": if wall > 0.0 { (summary.runs as f64 * 3600.0 / wall) as u64 } else { 0 },
      "counters": summary.counters.to_json(),
      "real_vs_stub": sim.real_stub(),
      "violating_runs": summary.violations.len(),
      "signatures": reported,
      "known_findings_hit": known_hit.iter().collect::<Vec<_>>(),
      "blocks_skipped_by_wall_cap": summary.blocks_skipped_by_wall_cap,
      "jobs": opt.jobs,
    });
    if let Some(extra) = &extra {
      coverage["extra_pass"] = json!({"name": extra.name, "counters": extra.counters.to_json(), "note": extra.note, "violations": extra.violations.len()});
    }
    if sim.level() == "fault_enumeration" {
      // the thorough tier enumerates every single structural fault of the stated kinds (the seeded parts are sampling)
      coverage["exhaustive"] = json!(opt.tier == Tier::Thorough && opt.runs_override.is_none() && summary.blocks_skipped_by_wall_cap == 0 && summary.harness_errors.is_empty());
    }
    let evidence = json!({
      "property_id": sim.id(),
      "tier": opt.tier.name(),
      "seed": opt.seed,
      "level": sim.level(),
      "coverage": coverage,
      "assumptions": sim.assumptions(),
      "wall_s": wall,
      "violations": new_violations,
    });
    let dir = verif_dir().join("evidence");
    let _ = std::fs::create_dir_all(&dir);
    let path = dir.join(format!("{}.json", sim.id()));
    if let Err(e) = std::fs::write(&path, serde_json::to_string_pretty(&evidence).unwrap_or_default()) {
      println!("HARNESS-ERROR property={} cannot write evidence {}: {}", sim.id(), path.display(), e);
      if exit == 0 {
        exit = 2;
      }
    }
  }
  exit
}

fn truncate(s: &str, n: usize) -> String {
  if s.chars().count() <= n {
    s.to_string()
  } else {
    format!("{}...", s.chars().take(n).collect::<String>())
  }
}

/// Shortens long strings inside a plan for display in evidence samples.
fn shorten(v: &Value) -> Value {
  match v {
    Value::String(s) if s.len() > 200 => Value::String(format!("{}...({} bytes)", s.chars().take(120).collect::<String>(), s.len())),
    Value::Array(a) => {
      let mut out: Vec<Value> = a.iter().take(40).map(shorten).collect();
      if a.len() > 40 {
        out.push(json!(format!("...({} items)", a.len())));
      }
      Value::Array(out)
    }
    Value::Object(o) => Value::Object(o.iter().map(|(k, v)| (k.clone(), shorten(v))).collect()),
    other => other.clone(),
  }
}

/// `dmnsim replay <file>`
pub fn replay_main(lookup: impl Fn(&str) -> Option<&'static dyn Sim>, file: &Path) -> i32 {
  let text = match std::fs::read_to_string(file) {
    Ok(t) => t,
    Err(e) => {
      println!("HARNESS-ERROR cannot read {}: {}", file.display(), e);
      return 2;
    }
  };
  let doc: Value = match serde_json::from_str(&text) {
    Ok(v) => v,
    Err(e) => {
      println!("HARNESS-ERROR cannot parse {}: {}", file.display(), e);
      return 2;
    }
  };
  let sim = match lookup(pstr(&doc, "property")) {
    Some(s) => s,
    None => {
      println!("HARNESS-ERROR unknown property in {}", file.display());
      return 2;
    }
  };
  let tz = pstr(&doc, "tz").to_string();
  let want = doc.get("violation").and_then(Violation::from_json);
  let tz = if tz.is_empty() { "UTC0".to_string() } else { tz };
  // a document of the pristine-process pass: the run behind its predecessors against the run alone
  if let Some(pristine) = doc.get("pristine_log_hash").and_then(|h| h.as_u64()) {
    let behind = exec_isolated(sim, &doc, "replay", 0, &tz);
    let mut alone_doc = doc.clone();
    if let Some(map) = alone_doc.as_object_mut() {
      map.remove("prefix");
    }
    let alone = exec_isolated(sim, &alone_doc, "replay", 0, &tz);
    if let Some(e) = behind.harness_error.as_ref().or(alone.harness_error.as_ref()) {
      println!("HARNESS-ERROR {}", e);
      return 2;
    }
    if behind.log_hash != alone.log_hash {
      println!("VIOLATION property={} replay={}", sim.id(), file.display());
      println!("  reproduced: the run returns other values behind the runs of its block (log hash {}) than alone in a fresh process (log hash {}, recorded {})", behind.log_hash, alone.log_hash, pristine);
      return 1;
    }
    println!("not reproduced: the run of {} returns the same values alone and behind its predecessors on this tree", file.display());
    return 0;
  }
  let mut out = exec_isolated(sim, &doc, "replay", 0, &tz);
  if out.harness_error.as_deref().map(|e| e.contains("diverged")).unwrap_or(false) {
    // the recorded schedule belongs to other code than this tree: search the same plan again
    println!("the recorded schedule does not fit this tree (the code differs from the one it was recorded on); searching the same plan with fresh scheduler seeds");
    out = exec_isolated(sim, &doc, "fresh", 64, &tz);
  }
  if let Some(e) = &out.harness_error {
    println!("HARNESS-ERROR {}", e);
    return 2;
  }
  match (&out.violation, &want) {
    (Some(got), Some(want)) if got.signature == want.signature && got.event_index == want.event_index => {
      println!("VIOLATION property={} replay={}", sim.id(), file.display());
      println!("  reproduced exactly: rule={} signature={} event={}", got.rule, got.signature, got.event_index);
      println!("  expected: {}", truncate(&got.expected, 400));
      println!("  observed: {}", truncate(&got.observed, 400));
      1
    }
    (Some(got), _) => {
      println!("VIOLATION property={} replay={}", sim.id(), file.display());
      println!("  a different violation than recorded: rule={} signature={} event={}", got.rule, got.signature, got.event_index);
      1
    }
    (None, _) => {
      println!("not reproduced: the plan of {} ran without violation on this tree", file.display());
      0
    }
  }
}
