//! Strict JSON (RFC 8259) parser keeping numbers as text, and the abstract values the service
//! simulation sends through echo decisions, with their FEEL and TCK renderings.

use crate::rng::Rng;
use serde_json::{json, Value};

/// Parsed JSON with numbers kept verbatim.
#[derive(Clone, Debug, PartialEq)]
pub enum J {
  Null,
  Bool(bool),
  Num(String),
  Str(String),
  Arr(Vec<J>),
  /// Members in document order (duplicates kept).
  Obj(Vec<(String, J)>),
}

impl J {
  pub fn get(&self, key: &str) -> Option<&J> {
    match self {
      J::Obj(m) => m.iter().find(|(k, _)| k == key).map(|(_, v)| v),
      _ => None,
    }
  }
}

pub struct JsonError {
  pub at: usize,
  pub what: String,
}

struct P<'a> {
  b: &'a [u8],
  i: usize,
  depth: usize,
}

impl<'a> P<'a> {
  fn err<T>(&self, what: &str) -> Result<T, JsonError> {
    Err(JsonError { at: self.i, what: what.to_string() })
  }
  fn ws(&mut self) {
    while self.i < self.b.len() && matches!(self.b[self.i], b' ' | b'\t' | b'\n' | b'\r') {
      self.i += 1;
    }
  }
  fn value(&mut self) -> Result<J, JsonError> {
    self.ws();
    if self.i >= self.b.len() {
      return self.err("unexpected end of document");
    }
    self.depth += 1;
    if self.depth > 200 {
      return self.err("nesting too deep");
    }
    let r = match self.b[self.i] {
      b'{' => self.object(),
      b'[' => self.array(),
      b'"' => self.string().map(J::Str),
      b't' => self.lit("true", J::Bool(true)),
      b'f' => self.lit("false", J::Bool(false)),
      b'n' => self.lit("null", J::Null),
      b'-' | b'0'..=b'9' => self.number(),
      c => self.err(&format!("unexpected byte 0x{:02x} where a value must start", c)),
    };
    self.depth -= 1;
    r
  }
  fn lit(&mut self, text: &str, v: J) -> Result<J, JsonError> {
    if self.b[self.i..].starts_with(text.as_bytes()) {
      self.i += text.len();
      Ok(v)
    } else {
      self.err("invalid literal")
    }
  }
  fn number(&mut self) -> Result<J, JsonError> {
    let start = self.i;
    if self.b[self.i] == b'-' {
      self.i += 1;
    }
    if self.i >= self.b.len() {
      return self.err("digit expected");
    }
    match self.b[self.i] {
      b'0' => self.i += 1,
      b'1'..=b'9' => {
        while self.i < self.b.len() && self.b[self.i].is_ascii_digit() {
          self.i += 1;
        }
      }
      _ => return self.err("digit expected in number"),
    }
    if self.i < self.b.len() && self.b[self.i] == b'.' {
      self.i += 1;
      let d = self.i;
      while self.i < self.b.len() && self.b[self.i].is_ascii_digit() {
        self.i += 1;
      }
      if self.i == d {
        return self.err("digit expected after the decimal point");
      }
    }
    if self.i < self.b.len() && (self.b[self.i] == b'e' || self.b[self.i] == b'E') {
      self.i += 1;
      if self.i < self.b.len() && (self.b[self.i] == b'+' || self.b[self.i] == b'-') {
        self.i += 1;
      }
      let d = self.i;
      while self.i < self.b.len() && self.b[self.i].is_ascii_digit() {
        self.i += 1;
      }
      if self.i == d {
        return self.err("digit expected in exponent");
      }
    }
    Ok(J::Num(String::from_utf8_lossy(&self.b[start..self.i]).to_string()))
  }
  fn hex4(&mut self) -> Result<u32, JsonError> {
    if self.i + 4 > self.b.len() {
      return self.err("truncated \\u escape");
    }
    let mut v = 0u32;
    for k in 0..4 {
      let c = self.b[self.i + k];
      let d = match c {
        b'0'..=b'9' => c - b'0',
        b'a'..=b'f' => c - b'a' + 10,
        b'A'..=b'F' => c - b'A' + 10,
        _ => return self.err("invalid hex digit in \\u escape"),
      };
      v = v * 16 + d as u32;
    }
    self.i += 4;
    Ok(v)
  }
  fn string(&mut self) -> Result<String, JsonError> {
    self.i += 1; // opening quote
    let mut out = String::new();
    loop {
      if self.i >= self.b.len() {
        return self.err("unterminated string");
      }
      let c = self.b[self.i];
      match c {
        b'"' => {
          self.i += 1;
          return Ok(out);
        }
        b'\\' => {
          self.i += 1;
          if self.i >= self.b.len() {
            return self.err("unterminated escape");
          }
          let e = self.b[self.i];
          self.i += 1;
          match e {
            b'"' => out.push('"'),
            b'\\' => out.push('\\'),
            b'/' => out.push('/'),
            b'b' => out.push('\u{8}'),
            b'f' => out.push('\u{c}'),
            b'n' => out.push('\n'),
            b'r' => out.push('\r'),
            b't' => out.push('\t'),
            b'u' => {
              let hi = self.hex4()?;
              if (0xD800..0xDC00).contains(&hi) {
                if self.i + 2 <= self.b.len() && self.b[self.i] == b'\\' && self.b[self.i + 1] == b'u' {
                  self.i += 2;
                  let lo = self.hex4()?;
                  if !(0xDC00..0xE000).contains(&lo) {
                    return self.err("invalid low surrogate");
                  }
                  let cp = 0x10000 + ((hi - 0xD800) << 10) + (lo - 0xDC00);
                  out.push(char::from_u32(cp).unwrap_or('\u{FFFD}'));
                } else {
                  return self.err("lone high surrogate");
                }
              } else if (0xDC00..0xE000).contains(&hi) {
                return self.err("lone low surrogate");
              } else {
                out.push(char::from_u32(hi).unwrap_or('\u{FFFD}'));
              }
            }
            _ => return self.err(&format!("invalid escape \\{}", e as char)),
          }
        }
        0x00..=0x1f => return self.err(&format!("unescaped control character 0x{:02x} in string", c)),
        _ => {
          // copy one UTF-8 sequence (the document was validated as UTF-8 beforehand)
          let len = if c < 0x80 {
            1
          } else if c >> 5 == 0b110 {
            2
          } else if c >> 4 == 0b1110 {
            3
          } else {
            4
          };
          let end = (self.i + len).min(self.b.len());
          out.push_str(&String::from_utf8_lossy(&self.b[self.i..end]));
          self.i = end;
        }
      }
    }
  }
  fn array(&mut self) -> Result<J, JsonError> {
    self.i += 1;
    let mut items = vec![];
    self.ws();
    if self.i < self.b.len() && self.b[self.i] == b']' {
      self.i += 1;
      return Ok(J::Arr(items));
    }
    loop {
      items.push(self.value()?);
      self.ws();
      if self.i >= self.b.len() {
        return self.err("unterminated array");
      }
      match self.b[self.i] {
        b',' => self.i += 1,
        b']' => {
          self.i += 1;
          return Ok(J::Arr(items));
        }
        _ => return self.err("',' or ']' expected"),
      }
    }
  }
  fn object(&mut self) -> Result<J, JsonError> {
    self.i += 1;
    let mut members = vec![];
    self.ws();
    if self.i < self.b.len() && self.b[self.i] == b'}' {
      self.i += 1;
      return Ok(J::Obj(members));
    }
    loop {
      self.ws();
      if self.i >= self.b.len() || self.b[self.i] != b'"' {
        return self.err("string key expected");
      }
      let k = self.string()?;
      self.ws();
      if self.i >= self.b.len() || self.b[self.i] != b':' {
        return self.err("':' expected");
      }
      self.i += 1;
      let v = self.value()?;
      members.push((k, v));
      self.ws();
      if self.i >= self.b.len() {
        return self.err("unterminated object");
      }
      match self.b[self.i] {
        b',' => self.i += 1,
        b'}' => {
          self.i += 1;
          return Ok(J::Obj(members));
        }
        _ => return self.err("',' or '}' expected"),
      }
    }
  }
}

/// Parses a complete document: valid UTF-8, one value, nothing but white space after it.
pub fn parse_strict(bytes: &[u8]) -> Result<J, JsonError> {
  if std::str::from_utf8(bytes).is_err() {
    return Err(JsonError { at: 0, what: "body is not valid UTF-8".to_string() });
  }
  let mut p = P { b: bytes, i: 0, depth: 0 };
  let v = p.value()?;
  p.ws();
  if p.i != bytes.len() {
    return p.err("trailing bytes after the document");
  }
  Ok(v)
}

/// Canonical form of a decimal number text (JSON or plain): sign, digits without leading zeros,
/// fraction without trailing zeros, exponent folded in. `None` when the text is not a number.
pub fn canonical_decimal(text: &str) -> Option<String> {
  let t = text.trim();
  let (neg, rest) = match t.strip_prefix('-') {
    Some(r) => (true, r),
    None => (false, t.strip_prefix('+').unwrap_or(t)),
  };
  let (mant, exp) = match rest.find(|c| c == 'e' || c == 'E') {
    Some(i) => (&rest[..i], rest[i + 1..].parse::<i64>().ok()?),
    None => (rest, 0),
  };
  let (int_part, frac_part) = match mant.find('.') {
    Some(i) => (&mant[..i], &mant[i + 1..]),
    None => (mant, ""),
  };
  if int_part.is_empty() && frac_part.is_empty() {
    return None;
  }
  if !int_part.chars().all(|c| c.is_ascii_digit()) || !frac_part.chars().all(|c| c.is_ascii_digit()) {
    return None;
  }
  // digits and the position of the decimal point counted from the left
  let digits: String = format!("{}{}", int_part, frac_part);
  let mut point = int_part.len() as i64 + exp;
  let stripped = digits.trim_start_matches('0');
  point -= (digits.len() - stripped.len()) as i64;
  let stripped = stripped.trim_end_matches('0');
  if stripped.is_empty() {
    return Some("0".to_string());
  }
  Some(format!("{}{}e{}", if neg { "-" } else { "" }, stripped, point))
}

// ------------------------------------------------------------------------------------------------
// abstract values
// ------------------------------------------------------------------------------------------------

#[derive(Clone, Debug, PartialEq)]
pub enum Val {
  Null,
  Bool(bool),
  /// Plain decimal text.
  Num(String),
  Str(String),
  List(Vec<Val>),
  Ctx(Vec<(String, Val)>),
  /// A temporal value in TCK form: (xsd type, text). Only its TCK round trip is compared.
  Typed(String, String),
}

const STRING_ATOMS: [&str; 40] = [
  "a", "Z", "0", " ", "John", "\"", "\"\"", "\\", "\\\\", "\\\"", "/", "'", "\n", "\r", "\t", "\u{0}", "\u{1}", "\u{7}", "\u{8}", "\u{b}", "\u{c}", "\u{1b}", "\u{1f}", "\u{7f}", "\u{80}", "\u{85}",
  "\u{a0}", "é", "ł", "ß", "Ω", "ж", "中", "\u{2028}", "\u{2029}", "\u{feff}", "\u{fffd}", "😀", "𝄞", "\\u0041",
];

/// A text of several KiB of multi-byte characters behind 0..3 ASCII bytes (so that any byte offset a
/// size cap might cut at falls inside a character for some of them).
pub fn long_text(rng: &mut Rng) -> String {
  let pad = rng.index(4);
  let unit = *rng.pick(&["\u{17c}", "\u{4e2d}", "\u{1F600}", "\u{e9}\u{4e2d}\u{1F600}"]);
  let target = [100usize, 300, 1_500, 5_000, 9_000][rng.index(5)];
  let mut s = "a".repeat(pad);
  while s.len() < target {
    s.push_str(unit);
  }
  s
}

pub fn gen_string(rng: &mut Rng) -> String {
  if rng.chance(1, 25) {
    return long_text(rng);
  }
  let n = match rng.index(10) {
    0 => 0,
    1..=5 => 1 + rng.index(3),
    _ => 1 + rng.index(12),
  };
  let mut s = String::new();
  for _ in 0..n {
    s.push_str(*rng.pick(&STRING_ATOMS));
  }
  s
}

pub fn gen_number(rng: &mut Rng) -> String {
  let digits = match rng.index(6) {
    0 => 1,
    1..=3 => 1 + rng.index(6),
    4 => 1 + rng.index(18),
    _ => 1 + rng.index(34),
  };
  let mut coef = String::new();
  for i in 0..digits {
    let d = if i == 0 { 1 + rng.index(9) } else { rng.index(10) };
    coef.push(char::from(b'0' + d as u8));
  }
  if rng.chance(1, 12) {
    coef = "0".to_string();
  }
  // scale: how many of the digits are fraction digits, or extra zeros
  let text = match rng.index(5) {
    0 => coef.clone(),
    1 => {
      let zeros = rng.index(12);
      if coef == "0" {
        coef.clone()
      } else {
        format!("{}{}", coef, "0".repeat(zeros))
      }
    }
    2 => {
      let zeros = rng.index(12);
      format!("0.{}{}", "0".repeat(zeros), coef)
    }
    _ => {
      if coef.len() > 1 {
        let cut = 1 + rng.index(coef.len() - 1);
        format!("{}.{}", &coef[..cut], &coef[cut..])
      } else {
        coef.clone()
      }
    }
  };
  let is_zero = text.chars().all(|c| c == '0' || c == '.');
  if !is_zero && rng.chance(1, 3) {
    format!("-{}", text)
  } else {
    text
  }
}

/// A number text for TCK `xsd:decimal` inputs: as [gen_number], sometimes in scientific notation
/// (zero coefficients with an exponent included).
pub fn gen_number_exp(rng: &mut Rng) -> String {
  let base = gen_number(rng);
  if !rng.chance(1, 3) {
    return base;
  }
  let e = *rng.pick(&["E", "e"]);
  let k = match rng.index(4) {
    0 => rng.index(4),
    1 => rng.index(12),
    _ => rng.index(30),
  };
  match rng.index(3) {
    0 => format!("{}{}+{}", base, e, k),
    1 => format!("{}{}-{}", base, e, k),
    _ => format!("{}{}{}", base, e, k),
  }
}

/// (negative, digits, exponent): the value is digits x 10^exponent.
fn parse_decimal(text: &str) -> Option<(bool, String, i64)> {
  let t = text.trim();
  let (neg, rest) = match t.strip_prefix('-') {
    Some(r) => (true, r),
    None => (false, t.strip_prefix('+').unwrap_or(t)),
  };
  let (mant, exp) = match rest.find(|c| c == 'e' || c == 'E') {
    Some(i) => (&rest[..i], rest[i + 1..].parse::<i64>().ok()?),
    None => (rest, 0),
  };
  let (int_part, frac_part) = match mant.find('.') {
    Some(i) => (&mant[..i], &mant[i + 1..]),
    None => (mant, ""),
  };
  if int_part.is_empty() && frac_part.is_empty() {
    return None;
  }
  if !int_part.chars().all(|c| c.is_ascii_digit()) || !frac_part.chars().all(|c| c.is_ascii_digit()) {
    return None;
  }
  Some((neg, format!("{}{}", int_part, frac_part), exp - frac_part.len() as i64))
}

/// `text` rounded half-even to `scale` fraction digits (negative: to tens, hundreds, ...), as a plain
/// decimal text. The reference for `decimal(n, scale)`.
pub fn round_half_even(text: &str, scale: i64) -> Option<String> {
  let (neg, digits, exp) = parse_decimal(text)?;
  let target = -scale;
  let (kept, kept_exp) = if exp >= target {
    (digits, exp)
  } else {
    let k = (target - exp) as usize;
    let padded = if digits.len() < k { format!("{}{}", "0".repeat(k - digits.len()), digits) } else { digits };
    let (keep, drop) = padded.split_at(padded.len() - k);
    let first = drop.as_bytes()[0];
    let rest_zero = drop[1..].bytes().all(|b| b == b'0');
    let last_odd = keep.bytes().last().map(|b| (b - b'0') % 2 == 1).unwrap_or(false);
    let up = first > b'5' || (first == b'5' && (!rest_zero || last_odd));
    let mut ds: Vec<u8> = if keep.is_empty() { vec![b'0'] } else { keep.bytes().collect() };
    if up {
      let mut i = ds.len();
      loop {
        if i == 0 {
          ds.insert(0, b'1');
          break;
        }
        i -= 1;
        if ds[i] == b'9' {
          ds[i] = b'0';
        } else {
          ds[i] += 1;
          break;
        }
      }
    }
    (String::from_utf8(ds).ok()?, target)
  };
  let plain = if kept_exp >= 0 {
    format!("{}{}", kept, "0".repeat(kept_exp as usize))
  } else {
    let f = (-kept_exp) as usize;
    let padded = if kept.len() <= f { format!("{}{}", "0".repeat(f + 1 - kept.len()), kept) } else { kept };
    let (a, b) = padded.split_at(padded.len() - f);
    format!("{}.{}", a, b)
  };
  Some(if neg { format!("-{}", plain) } else { plain })
}

// ------------------------------------------------------------------------------------------------
// temporal values in TCK (XML Schema) form: generator and value-preserving canonical form
// ------------------------------------------------------------------------------------------------

fn days_in_month(y: u64, m: u64) -> u64 {
  match m {
    1 | 3 | 5 | 7 | 8 | 10 | 12 => 31,
    4 | 6 | 9 | 11 => 30,
    _ => {
      if (y % 4 == 0 && y % 100 != 0) || y % 400 == 0 {
        29
      } else {
        28
      }
    }
  }
}

fn gen_date_text(rng: &mut Rng) -> String {
  let y = match rng.index(4) {
    0 => 1970 + rng.below(80),
    1 => 1000 + rng.below(9000),
    2 => *rng.pick(&[1000u64, 1582, 1600, 1900, 2000, 2020, 2024, 2100, 9999]),
    _ => 2000 + rng.below(40),
  };
  let m = 1 + rng.below(12);
  let dim = days_in_month(y, m);
  let d = if rng.chance(1, 4) { dim } else { 1 + rng.below(dim) };
  format!("{:04}-{:02}-{:02}", y, m, d)
}

/// `with_zone`: None = generator's choice, Some(false) = never a zone.
fn gen_time_text(rng: &mut Rng) -> String {
  let zone = match rng.index(8) {
    0 | 1 => String::new(),
    2 => "Z".to_string(),
    3 => rng.pick(&["+00:00", "-00:00", "-00:30", "+00:30", "-00:01", "-00:45", "+14:00", "-14:00", "-12:00", "+05:45", "-03:30", "-09:30"]).to_string(),
    _ => {
      let h = rng.below(15);
      let m = if h == 14 { 0 } else { *rng.pick(&[0u64, 0, 30, 45, 15, 1, 59]) };
      format!("{}{:02}:{:02}", if rng.chance(1, 2) { "+" } else { "-" }, h, m)
    }
  };
  // a time without a zone is local: keep it out of the hours in which the simulator's zones have
  // their daylight-saving gaps (its validity would depend on the current date)
  let h = if zone.is_empty() { 4 + rng.below(20) } else { rng.below(24) };
  let (mi, se) = if rng.chance(1, 6) { (*rng.pick(&[0u64, 59]), *rng.pick(&[0u64, 59])) } else { (rng.below(60), rng.below(60)) };
  let frac = match rng.index(8) {
    0 => ".5".to_string(),
    1 => ".250".to_string(),
    2 => format!(".{:03}", rng.below(1000)),
    3 => format!(".{:09}", 1 + rng.below(999_999_999)),
    4 => ".000001".to_string(),
    _ => String::new(),
  };
  format!("{:02}:{:02}:{:02}{}{}", h, mi, se, frac, zone)
}

fn gen_dt_duration_text(rng: &mut Rng) -> String {
  let mut s = String::new();
  if rng.chance(1, 4) {
    s.push('-');
  }
  s.push('P');
  let mut any = false;
  if rng.chance(1, 2) {
    s.push_str(&format!("{}D", *rng.pick(&[0u64, 1, 2, 30, 365, 400, 99999])));
    any = true;
  }
  let mut t = String::new();
  if rng.chance(1, 2) {
    t.push_str(&format!("{}H", rng.below(100)));
  }
  if rng.chance(1, 2) {
    t.push_str(&format!("{}M", rng.below(100)));
  }
  if rng.chance(1, 2) || (!any && t.is_empty()) {
    let frac = match rng.index(5) {
      0 => ".5".to_string(),
      1 => format!(".{:03}", rng.below(1000)),
      2 => format!(".{:09}", rng.below(1_000_000_000)),
      _ => String::new(),
    };
    t.push_str(&format!("{}{}S", rng.below(100), frac));
  }
  if !t.is_empty() {
    s.push('T');
    s.push_str(&t);
  }
  s
}

fn gen_ym_duration_text(rng: &mut Rng) -> String {
  let sign = if rng.chance(1, 4) { "-" } else { "" };
  match rng.index(3) {
    0 => format!("{}P{}Y", sign, rng.below(300)),
    1 => format!("{}P{}M", sign, rng.below(40)),
    _ => format!("{}P{}Y{}M", sign, rng.below(300), rng.below(40)),
  }
}

/// (echo decision suffix, text): a date, time, date and time or duration in XML Schema form.
pub fn gen_temporal(rng: &mut Rng) -> (&'static str, String) {
  match rng.index(5) {
    0 => ("d", gen_date_text(rng)),
    1 => ("t", gen_time_text(rng)),
    2 => ("dt", format!("{}T{}", gen_date_text(rng), gen_time_text(rng))),
    3 => ("dd", gen_dt_duration_text(rng)),
    _ => ("ym", gen_ym_duration_text(rng)),
  }
}

fn canon_time(text: &str) -> Option<String> {
  let b = text.as_bytes();
  if b.len() < 8 || b[2] != b':' || b[5] != b':' || !text.is_char_boundary(8) {
    return None;
  }
  let (hms, mut rest) = text.split_at(8);
  if !hms.bytes().enumerate().all(|(i, c)| if i == 2 || i == 5 { c == b':' } else { c.is_ascii_digit() }) {
    return None;
  }
  let mut frac = String::new();
  if let Some(r) = rest.strip_prefix('.') {
    let n = r.bytes().take_while(|c| c.is_ascii_digit()).count();
    if n == 0 {
      return None;
    }
    frac = r[..n].trim_end_matches('0').to_string();
    rest = &r[n..];
  }
  let zone = match rest {
    "" => String::new(),
    "Z" | "z" => "Z".to_string(),
    z => {
      let zb = z.as_bytes();
      if zb.len() != 6 || (zb[0] != b'+' && zb[0] != b'-') || zb[3] != b':' || ![1, 2, 4, 5].iter().all(|i| zb[*i].is_ascii_digit()) {
        return None;
      }
      if &z[1..] == "00:00" {
        "Z".to_string()
      } else {
        z.to_string()
      }
    }
  };
  Some(format!("{}{}{}{}", hms, if frac.is_empty() { "" } else { "." }, frac, zone))
}

/// Nanoseconds of a days-and-time duration text, months of a years-and-months duration text.
fn canon_duration(text: &str) -> Option<String> {
  let (neg, rest) = match text.strip_prefix('-') {
    Some(r) => (true, r),
    None => (false, text),
  };
  let rest = rest.strip_prefix('P')?;
  if rest.is_empty() {
    return None;
  }
  let (date_part, time_part) = match rest.find('T') {
    Some(i) => (&rest[..i], Some(&rest[i + 1..])),
    None => (rest, None),
  };
  let mut months: i128 = 0;
  let mut nanos: i128 = 0;
  let mut is_ym = false;
  let mut is_dt = time_part.is_some();
  let mut num = String::new();
  for c in date_part.chars() {
    match c {
      '0'..='9' => num.push(c),
      'Y' | 'M' | 'D' => {
        let n: i128 = num.parse().ok()?;
        num.clear();
        match c {
          'Y' => {
            months += 12 * n;
            is_ym = true
          }
          'M' => {
            months += n;
            is_ym = true
          }
          _ => {
            nanos += n * 86_400_000_000_000;
            is_dt = true
          }
        }
      }
      _ => return None,
    }
  }
  if !num.is_empty() {
    return None;
  }
  if let Some(tp) = time_part {
    if tp.is_empty() {
      return None;
    }
    let mut num = String::new();
    for c in tp.chars() {
      match c {
        '0'..='9' | '.' => num.push(c),
        'H' => {
          nanos += num.parse::<i128>().ok()? * 3_600_000_000_000;
          num.clear();
        }
        'M' => {
          nanos += num.parse::<i128>().ok()? * 60_000_000_000;
          num.clear();
        }
        'S' => {
          let (i, f) = match num.find('.') {
            Some(p) => (&num[..p], &num[p + 1..]),
            None => (num.as_str(), ""),
          };
          if f.len() > 9 {
            return None;
          }
          nanos += i.parse::<i128>().ok()? * 1_000_000_000;
          if !f.is_empty() {
            nanos += format!("{:0<9}", f).parse::<i128>().ok()?;
          }
          num.clear();
        }
        _ => return None,
      }
    }
    if !num.is_empty() {
      return None;
    }
  }
  if is_ym && is_dt {
    return None;
  }
  if is_ym {
    Some(format!("months:{}", if neg { -months } else { months }))
  } else {
    Some(format!("nanos:{}", if neg { -nanos } else { nanos }))
  }
}

/// Value-preserving canonical form of a temporal text in XML Schema form: trailing zeros of a
/// fraction, `+00:00` against `Z` and the split of a duration into units do not change the value.
pub fn canon_temporal(ty: &str, text: &str) -> Option<String> {
  match ty {
    "xsd:date" => {
      let b = text.as_bytes();
      if b.len() == 10 && b[4] == b'-' && b[7] == b'-' && [0, 1, 2, 3, 5, 6, 8, 9].iter().all(|i| b[*i].is_ascii_digit()) {
        Some(text.to_string())
      } else {
        None
      }
    }
    "xsd:time" => canon_time(text),
    "xsd:dateTime" => {
      let i = text.find('T')?;
      let d = canon_temporal("xsd:date", &text[..i])?;
      Some(format!("{}T{}", d, canon_time(&text[i + 1..])?))
    }
    "xsd:duration" => canon_duration(text),
    _ => None,
  }
}

/// The vocabulary of FEEL: keywords, operators and delimiters, names (some of them made of keywords),
/// literals. [feel_token_soup] strings them together with and without blanks: nearly all of the results are
/// syntax errors, every one of them has to be answered as such by the lexer and the parser.
const FEEL_TOKENS: [&str; 85] = [
  "for", "in", "return", "some", "every", "satisfies", "if", "then", "else", "function", "external", "not", "and", "or", "between", "instance", "of", "true", "false", "null", "item", "partial",
  "+", "-", "*", "/", "**", "<", "<=", ">", ">=", "=", "!=", ".", "..", ",", ":", "(", ")", "[", "]", "{", "}", "@", "?", "->", "|", "'", "\\", "#", "$",
  "a", "b", "x", "in+x", "in-a", "ifx", "for x", "date", "date and time", "time", "duration", "years and months duration", "Order Size", "list", "context", "number", "string", "Any",
  "1", "1.5", ".5", "10", "\"s\"", "\"\"", "@\"2021-01-01\"", "\"\\u00e9\"", "\u{e9}", "\u{1F600}", "\"\\uDC00\"", "\"\\uD800\"", "\"\\uD83D\\uDE00\"", "\"\\U0001F600\"", "\"\\", "/*",
];

pub fn feel_token_soup(seed: u64) -> String {
  let mut rng = Rng::new(seed);
  let n = 1 + match rng.index(4) {
    0 => rng.index(3),
    1 | 2 => rng.index(8),
    _ => rng.index(16),
  };
  // a skeleton that is nearly right makes the parser go further than a pure soup does
  let mut out = String::new();
  if rng.chance(1, 3) {
    out.push_str(*rng.pick(&["for ", "some ", "every ", "if ", "function(", "{", "[", "("]));
  }
  for i in 0..n {
    if i > 0 && rng.chance(2, 3) {
      out.push(' ');
    }
    out.push_str(*rng.pick(&FEEL_TOKENS));
  }
  out
}

const KEY_ATOMS: [&str; 12] = ["a", "b", "key", "Full Name", "x1", "total amount", "k", "Z", "n_1", "some key", "v", "w"];

pub fn gen_val(rng: &mut Rng, depth: usize) -> Val {
  let pick = if depth == 0 { rng.index(5) } else { rng.index(8) };
  match pick {
    0 => Val::Null,
    1 => Val::Bool(rng.chance(1, 2)),
    2 => Val::Num(gen_number(rng)),
    3 | 4 => Val::Str(gen_string(rng)),
    5 | 6 => {
      let n = rng.index(4);
      Val::List((0..n).map(|_| gen_val(rng, depth - 1)).collect())
    }
    _ => {
      let n = rng.index(4);
      let mut entries: Vec<(String, Val)> = vec![];
      for _ in 0..n {
        let k = rng.pick(&KEY_ATOMS).to_string();
        if entries.iter().any(|(e, _)| *e == k) {
          continue;
        }
        entries.push((k, gen_val(rng, depth - 1)));
      }
      Val::Ctx(entries)
    }
  }
}

/// FEEL string literal of a text (escapes exactly what the FEEL lexer of the code under test reads).
pub fn feel_string(s: &str) -> String {
  let mut out = String::from("\"");
  for c in s.chars() {
    match c {
      '"' => out.push_str("\\\""),
      '\\' => out.push_str("\\\\"),
      '\n' => out.push_str("\\n"),
      '\r' => out.push_str("\\r"),
      '\t' => out.push_str("\\t"),
      c if (c as u32) < 0x20 || c == '\u{7f}' || c == '\u{85}' || c == '\u{2028}' || c == '\u{2029}' => {
        out.push_str(&format!("\\u{:04X}", c as u32));
      }
      c => out.push(c),
    }
  }
  out.push('"');
  out
}

impl Val {
  pub fn to_plan(&self) -> Value {
    match self {
      Val::Null => json!({"t": "null"}),
      Val::Bool(b) => json!({"t": "bool", "v": b}),
      Val::Num(n) => json!({"t": "num", "v": n}),
      Val::Str(s) => json!({"t": "str", "v": s}),
      Val::List(items) => json!({"t": "list", "v": items.iter().map(|i| i.to_plan()).collect::<Vec<_>>()}),
      Val::Ctx(entries) => json!({"t": "ctx", "v": entries.iter().map(|(k, v)| json!([k, v.to_plan()])).collect::<Vec<_>>()}),
      Val::Typed(ty, text) => json!({"t": "typed", "ty": ty, "v": text}),
    }
  }
  pub fn from_plan(v: &Value) -> Val {
    match v.get("t").and_then(|t| t.as_str()).unwrap_or("null") {
      "bool" => Val::Bool(v["v"].as_bool().unwrap_or(false)),
      "num" => Val::Num(v["v"].as_str().unwrap_or("0").to_string()),
      "str" => Val::Str(v["v"].as_str().unwrap_or("").to_string()),
      "list" => Val::List(v["v"].as_array().map(|a| a.iter().map(Val::from_plan).collect()).unwrap_or_default()),
      "typed" => Val::Typed(v["ty"].as_str().unwrap_or("").to_string(), v["v"].as_str().unwrap_or("").to_string()),
      "ctx" => Val::Ctx(
        v["v"]
          .as_array()
          .map(|a| a.iter().map(|e| (e[0].as_str().unwrap_or("").to_string(), Val::from_plan(&e[1]))).collect())
          .unwrap_or_default(),
      ),
      _ => Val::Null,
    }
  }
  /// FEEL literal.
  pub fn to_feel(&self) -> String {
    match self {
      Val::Null => "null".to_string(),
      Val::Bool(b) => b.to_string(),
      Val::Num(n) => n.clone(),
      Val::Str(s) => feel_string(s),
      Val::List(items) => format!("[{}]", items.iter().map(|i| i.to_feel()).collect::<Vec<_>>().join(", ")),
      Val::Ctx(entries) => format!("{{{}}}", entries.iter().map(|(k, v)| format!("{}: {}", k, v.to_feel())).collect::<Vec<_>>().join(", ")),
      Val::Typed(ty, text) => {
        let f = match ty.as_str() {
          "xsd:date" => "date",
          "xsd:time" => "time",
          "xsd:dateTime" => "date and time",
          _ => "duration",
        };
        format!("{}({})", f, feel_string(text))
      }
    }
  }
  /// TCK value DTO.
  pub fn to_tck(&self) -> Value {
    match self {
      Val::Null => json!({"simple": {"isNil": true}}),
      Val::Bool(b) => json!({"simple": {"type": "xsd:boolean", "text": b.to_string(), "isNil": false}}),
      Val::Num(n) => json!({"simple": {"type": "xsd:decimal", "text": n, "isNil": false}}),
      Val::Str(s) => json!({"simple": {"type": "xsd:string", "text": s, "isNil": false}}),
      Val::List(items) => json!({"list": {"items": items.iter().map(|i| i.to_tck()).collect::<Vec<_>>(), "isNil": false}}),
      Val::Ctx(entries) => json!({"components": entries.iter().map(|(k, v)| json!({"name": k, "value": v.to_tck(), "isNil": false})).collect::<Vec<_>>()}),
      Val::Typed(ty, text) => json!({"simple": {"type": ty, "text": text, "isNil": false}}),
    }
  }
  /// Does the decoded JSON `j` (plain rendering of /evaluate) denote this value?
  pub fn matches_json(&self, j: &J) -> Result<(), String> {
    match (self, j) {
      (Val::Null, J::Null) => Ok(()),
      (Val::Bool(a), J::Bool(b)) if a == b => Ok(()),
      (Val::Num(a), J::Num(b)) => {
        if canonical_decimal(a).is_some() && canonical_decimal(a) == canonical_decimal(b) {
          Ok(())
        } else {
          Err(format!("number {} came back as {}", a, b))
        }
      }
      (Val::Str(a), J::Str(b)) => {
        if a == b {
          Ok(())
        } else {
          Err(format!("string {:?} came back as {:?}", a, b))
        }
      }
      (Val::List(a), J::Arr(b)) => {
        if a.len() != b.len() {
          return Err(format!("list of {} items came back with {} items", a.len(), b.len()));
        }
        for (x, y) in a.iter().zip(b.iter()) {
          x.matches_json(y)?;
        }
        Ok(())
      }
      (Val::Ctx(a), J::Obj(b)) => {
        if a.len() != b.len() {
          return Err(format!("context of {} entries came back with {} members", a.len(), b.len()));
        }
        for (k, v) in a {
          let found: Vec<&J> = b.iter().filter(|(bk, _)| bk == k).map(|(_, bv)| bv).collect();
          if found.len() != 1 {
            return Err(format!("context key {:?} occurs {} times in the response", k, found.len()));
          }
          v.matches_json(found[0])?;
        }
        Ok(())
      }
      // the plain rendering of temporal values is not specified by the property: any JSON value will do
      (Val::Typed(_, _), _) => Ok(()),
      (a, b) => Err(format!("{} came back as {}", a.kind(), describe(b))),
    }
  }
  /// Does the decoded TCK value DTO denote this value?
  pub fn matches_tck(&self, j: &J) -> Result<(), String> {
    let simple = j.get("simple").filter(|s| **s != J::Null);
    let list = j.get("list").filter(|s| **s != J::Null);
    let components = j.get("components").filter(|s| **s != J::Null);
    match self {
      Val::Null => match simple {
        Some(s) if s.get("isNil") == Some(&J::Bool(true)) => Ok(()),
        _ => Err(format!("null came back as {}", describe(j))),
      },
      Val::Bool(b) => match simple {
        Some(s) if s.get("type") == Some(&J::Str("xsd:boolean".into())) && s.get("text") == Some(&J::Str(b.to_string())) => Ok(()),
        _ => Err(format!("boolean {} came back as {}", b, describe(j))),
      },
      Val::Num(n) => match simple {
        Some(s) => match (s.get("type"), s.get("text")) {
          (Some(J::Str(t)), Some(J::Str(text))) if (t == "xsd:decimal" || t == "xsd:integer" || t == "xsd:double") && canonical_decimal(text).is_some() && canonical_decimal(text) == canonical_decimal(n) => Ok(()),
          _ => Err(format!("number {} came back as {}", n, describe(j))),
        },
        None => Err(format!("number {} came back as {}", n, describe(j))),
      },
      Val::Str(v) => match simple {
        Some(s) if s.get("type") == Some(&J::Str("xsd:string".into())) && s.get("text") == Some(&J::Str(v.clone())) => Ok(()),
        _ => Err(format!("string {:?} came back as {}", v, describe(j))),
      },
      Val::Typed(ty, text) => match simple {
        Some(s) if s.get("type") == Some(&J::Str(ty.clone())) && s.get("text") == Some(&J::Str(text.clone())) => Ok(()),
        // the same value in another spelling (`+00:00` / `Z`, `.50` / `.5`, `PT36H` / `P1DT12H`)
        Some(s) if s.get("type") == Some(&J::Str(ty.clone())) && canon_temporal(ty, text).is_some() && matches!(s.get("text"), Some(J::Str(t)) if canon_temporal(ty, t) == canon_temporal(ty, text)) => Ok(()),
        _ => Err(format!("{} {:?} came back as {}", ty, text, describe(j))),
      },
      Val::List(items) => match list.and_then(|l| l.get("items")) {
        Some(J::Arr(got)) if got.len() == items.len() => {
          for (x, y) in items.iter().zip(got.iter()) {
            x.matches_tck(y)?;
          }
          Ok(())
        }
        _ => Err(format!("list of {} items came back as {}", items.len(), describe(j))),
      },
      Val::Ctx(entries) => match components {
        Some(J::Arr(got)) if got.len() == entries.len() => {
          for (k, v) in entries {
            let found: Vec<&J> = got.iter().filter(|c| c.get("name") == Some(&J::Str(k.clone()))).collect();
            if found.len() != 1 {
              return Err(format!("component {:?} occurs {} times in the response", k, found.len()));
            }
            match found[0].get("value") {
              Some(val) => v.matches_tck(val)?,
              None => return Err(format!("component {:?} has no value", k)),
            }
          }
          Ok(())
        }
        _ => Err(format!("context of {} entries came back as {}", entries.len(), describe(j))),
      },
    }
  }
  pub fn kind(&self) -> &'static str {
    match self {
      Val::Null => "null",
      Val::Bool(_) => "boolean",
      Val::Num(_) => "number",
      Val::Str(_) => "string",
      Val::List(_) => "list",
      Val::Ctx(_) => "context",
      Val::Typed(_, _) => "temporal",
    }
  }
  /// A short class of the value for signatures: kind + the "hardest" character class of strings in it.
  pub fn class(&self) -> String {
    fn hardest(v: &Val, worst: &mut u8, num_class: &mut u8) {
      match v {
        Val::Str(s) => {
          for c in s.chars() {
            let k = match c {
              '"' => 5,
              '\\' => 4,
              c if (c as u32) < 0x20 => 3,
              c if (c as u32) > 0xFFFF => 2,
              c if (c as u32) > 0x7e => 1,
              _ => 0,
            };
            if k > *worst {
              *worst = k;
            }
          }
        }
        Val::Num(n) => {
          let neg = n.starts_with('-');
          let small = n.trim_start_matches('-').starts_with("0.0000000");
          let k = if neg && small { 3 } else if small { 2 } else if neg { 1 } else { 0 };
          if k > *num_class {
            *num_class = k;
          }
        }
        Val::List(items) => items.iter().for_each(|i| hardest(i, worst, num_class)),
        Val::Ctx(entries) => entries.iter().for_each(|(_, i)| hardest(i, worst, num_class)),
        _ => {}
      }
    }
    if let Val::Typed(ty, _) = self {
      return format!("temporal:{}", ty);
    }
    let mut worst = 0u8;
    let mut num_class = 0u8;
    hardest(self, &mut worst, &mut num_class);
    let s = ["plain", "non-ascii", "supplementary-plane", "control-character", "backslash", "quote"][worst as usize];
    let n = ["", "+negative-number", "+small-number", "+negative-small-number"][num_class as usize];
    format!("{}:{}{}", self.kind(), s, n)
  }
}

pub fn describe(j: &J) -> String {
  let text = format!("{:?}", j);
  text.chars().take(200).collect()
}
