//! Run-time glue between the hooks in the code under test and the simulator: the scheduling
//! point callback (H5), the simulated clock (H4), lock event tracing, and one scheduled execution.

use crate::core::ExecMode;
use crate::rng::{derive, Hasher};
use crate::sched::{Kind, Recorder, Recording, Replayer, Tape};
use serde_json::{json, Value};
use shuttle::scheduler::Scheduler;
use std::collections::BTreeMap;
use std::panic::{catch_unwind, AssertUnwindSafe};
use std::sync::atomic::{AtomicBool, AtomicI64, AtomicU64, Ordering};
use std::sync::Mutex;

// ------------------------------------------------------------------------------------------------
// scheduling points (hook H5) with buggify faults
// ------------------------------------------------------------------------------------------------

#[derive(Default)]
pub struct PointFaults {
  /// (shuttle task id, index of the scheduling point of that task) -> the point panics.
  pub crash: Option<(usize, u64)>,
  /// (shuttle task id, index, length): the task yields `length` times at that point (a bounded stall).
  pub stall: Option<(usize, u64, u64)>,
}

#[derive(Default)]
struct PointState {
  counts: BTreeMap<usize, u64>,
  faults: PointFaults,
  crash_fired: bool,
  stall_fired: bool,
}

static POINTS: Mutex<PointState> = Mutex::new(PointState {
  counts: BTreeMap::new(),
  faults: PointFaults { crash: None, stall: None },
  crash_fired: false,
  stall_fired: false,
});
/// Scheduling points passed in any mode since the last reset.
static POINT_TOTAL: AtomicU64 = AtomicU64::new(0);

pub const INJECTED_CRASH: &str = "dmnsim: injected thread crash";

fn sched_point_cb() {
  POINT_TOTAL.fetch_add(1, Ordering::Relaxed);
  if !dmntk_verif_sync::sim_active() || std::thread::panicking() {
    return;
  }
  let me = usize::from(shuttle::current::me());
  let mut crash = false;
  let mut stall = 0;
  {
    let mut st = POINTS.lock().unwrap_or_else(|p| p.into_inner());
    let n = {
      let c = st.counts.entry(me).or_insert(0);
      *c += 1;
      *c
    };
    if let Some((task, at)) = st.faults.crash {
      if task == me && at == n && !st.crash_fired {
        st.crash_fired = true;
        crash = true;
      }
    }
    if let Some((task, at, len)) = st.faults.stall {
      if task == me && at == n && !st.stall_fired {
        st.stall_fired = true;
        stall = len;
      }
    }
  }
  if crash {
    panic!("{}", INJECTED_CRASH);
  }
  for _ in 0..stall {
    // a bounded stall: the task gives way `stall` times, then goes on (an unbounded one would be
    // an unfair schedule and could make a correct program look deadlocked)
    shuttle::thread::yield_now();
  }
  trace_event(10, 0, me);
  shuttle::thread::sleep(std::time::Duration::ZERO);
}

pub fn points_total() -> u64 {
  POINT_TOTAL.load(Ordering::Relaxed)
}

pub fn reset_points(faults: PointFaults) {
  let mut st = POINTS.lock().unwrap_or_else(|p| p.into_inner());
  st.counts.clear();
  st.faults = faults;
  st.crash_fired = false;
  st.stall_fired = false;
  POINT_TOTAL.store(0, Ordering::Relaxed);
}

pub fn fault_report() -> (bool, bool) {
  let st = POINTS.lock().unwrap_or_else(|p| p.into_inner());
  (st.crash_fired, st.stall_fired)
}

// ------------------------------------------------------------------------------------------------
// lock event trace (hash = the stated measure of distinct interleavings)
// ------------------------------------------------------------------------------------------------

struct Trace {
  hasher: Hasher,
  lock_ids: BTreeMap<usize, usize>,
  events: u64,
  last_task: Option<usize>,
  /// number of events at which the running task changed while the previous one was inside a call
  switches: u64,
}

static TRACE: Mutex<Option<Trace>> = Mutex::new(None);

fn trace_event(kind: u64, lock: usize, task: usize) {
  if let Ok(mut g) = TRACE.lock() {
    if let Some(t) = g.as_mut() {
      let dense = if lock == 0 {
        0
      } else {
        let n = t.lock_ids.len() + 1;
        *t.lock_ids.entry(lock).or_insert(n)
      };
      t.hasher.u64(kind);
      t.hasher.u64(dense as u64);
      t.hasher.u64(task as u64);
      t.events += 1;
      if t.last_task.is_some() && t.last_task != Some(task) {
        t.switches += 1;
      }
      t.last_task = Some(task);
    }
  }
}

fn lock_observer(e: dmntk_verif_sync::LockEvent) {
  trace_event(e.kind as u64 + 100 + if e.poisoned { 50 } else { 0 }, e.lock, e.task);
}

pub fn trace_begin() {
  *TRACE.lock().unwrap_or_else(|p| p.into_inner()) = Some(Trace {
    hasher: Hasher::default(),
    lock_ids: BTreeMap::new(),
    events: 0,
    last_task: None,
    switches: 0,
  });
}

/// Adds a harness-level event (operation results etc.) to the trace hash.
pub fn trace_note(text: &str) {
  if let Ok(mut g) = TRACE.lock() {
    if let Some(t) = g.as_mut() {
      t.hasher.str(text);
    }
  }
}

/// Returns (hash, events, task switches between consecutive events).
pub fn trace_end() -> (u64, u64, u64) {
  let t = TRACE.lock().unwrap_or_else(|p| p.into_inner()).take();
  match t {
    Some(t) => (t.hasher.finish(), t.events, t.switches),
    None => (0, 0, 0),
  }
}

// ------------------------------------------------------------------------------------------------
// simulated clock (hook H4)
// ------------------------------------------------------------------------------------------------

static CLOCK_ON: AtomicBool = AtomicBool::new(false);
/// Days since 1970-01-01 of the simulated local date.
static CLOCK_DAYS: AtomicI64 = AtomicI64::new(0);
/// Days added after every read (a service running across midnight inside one request).
static CLOCK_TICK: AtomicI64 = AtomicI64::new(0);
static CLOCK_READS: AtomicU64 = AtomicU64::new(0);

pub fn civil_from_days(z: i64) -> (i32, u8, u8) {
  let z = z + 719_468;
  let era = if z >= 0 { z } else { z - 146_096 } / 146_097;
  let doe = z - era * 146_097;
  let yoe = (doe - doe / 1_460 + doe / 36_524 - doe / 146_096) / 365;
  let y = yoe + era * 400;
  let doy = doe - (365 * yoe + yoe / 4 - yoe / 100);
  let mp = (5 * doy + 2) / 153;
  let d = doy - (153 * mp + 2) / 5 + 1;
  let m = if mp < 10 { mp + 3 } else { mp - 9 };
  ((if m <= 2 { y + 1 } else { y }) as i32, m as u8, d as u8)
}

pub fn days_from_civil(y: i32, m: u8, d: u8) -> i64 {
  let y = if m <= 2 { y as i64 - 1 } else { y as i64 };
  let era = if y >= 0 { y } else { y - 399 } / 400;
  let yoe = y - era * 400;
  let mp = (m as i64 + 9) % 12;
  let doy = (153 * mp + 2) / 5 + d as i64 - 1;
  let doe = yoe * 365 + yoe / 4 - yoe / 100 + doy;
  era * 146_097 + doe - 719_468
}

fn today_cb() -> (i32, u8, u8) {
  CLOCK_READS.fetch_add(1, Ordering::Relaxed);
  let tick = CLOCK_TICK.load(Ordering::Relaxed);
  let days = if tick != 0 { CLOCK_DAYS.fetch_add(tick, Ordering::Relaxed) } else { CLOCK_DAYS.load(Ordering::Relaxed) };
  civil_from_days(days)
}

pub fn clock_set(days: i64, tick: i64) {
  CLOCK_DAYS.store(days, Ordering::Relaxed);
  CLOCK_TICK.store(tick, Ordering::Relaxed);
  if !CLOCK_ON.swap(true, Ordering::SeqCst) {
    dmntk_feel::verif::set_today(Some(today_cb));
  }
}

pub fn clock_days() -> i64 {
  CLOCK_DAYS.load(Ordering::Relaxed)
}

pub fn clock_reads() -> u64 {
  CLOCK_READS.load(Ordering::Relaxed)
}

pub fn clock_reset_reads() {
  CLOCK_READS.store(0, Ordering::Relaxed);
}

// ------------------------------------------------------------------------------------------------
// recursion probe (hook H6)
// ------------------------------------------------------------------------------------------------

pub const RECURSION_PROBE: &str = "dmnsim: FEEL function bodies nested deeper than";
pub const RECURSION_LIMIT: usize = 100;
static MAX_DEPTH_SEEN: AtomicU64 = AtomicU64::new(0);

fn function_body_cb(depth: usize) {
  MAX_DEPTH_SEEN.fetch_max(depth as u64, Ordering::Relaxed);
  if depth > RECURSION_LIMIT && !std::thread::panicking() {
    // no shipped model nests function bodies anywhere near this deep; beyond it the recursion is taken to be
    // unbounded and the run is ended here, as a panic the simulator recognises, instead of by a stack overflow
    panic!("{} {}", RECURSION_PROBE, RECURSION_LIMIT);
  }
}

/// Installs the probe that ends runaway recursion through FEEL function bodies.
pub fn install_recursion_probe() {
  dmntk_feel::verif::set_function_body(Some(function_body_cb));
}

pub fn max_function_depth_seen() -> u64 {
  MAX_DEPTH_SEEN.swap(0, Ordering::Relaxed)
}

// ------------------------------------------------------------------------------------------------
// installation
// ------------------------------------------------------------------------------------------------

static INSTALLED: AtomicBool = AtomicBool::new(false);

/// Installs the scheduling point callback and the lock observer (idempotent).
pub fn install() {
  if !INSTALLED.swap(true, Ordering::SeqCst) {
    dmntk_feel::verif::set_sched_point(Some(sched_point_cb));
    dmntk_verif_sync::set_observer(Some(lock_observer));
  }
}

// ------------------------------------------------------------------------------------------------
// one scheduled execution
// ------------------------------------------------------------------------------------------------

#[derive(Clone, Debug, PartialEq, Eq)]
pub enum SchedFailure {
  Deadlock(String),
  StepBound,
  /// A panic that escaped a task or the scheduler itself.
  Panic(String),
}

pub struct SchedReport {
  pub failure: Option<SchedFailure>,
  pub recording: Recording,
  pub switches: u64,
  pub diverged: bool,
}

impl SchedReport {
  pub fn schedule_json(&self, kind: &Kind, seed: u64) -> Value {
    json!({"scheduler": kind.to_json(), "scheduler_seed": seed, "recording": self.recording.to_json()})
  }
}

/// Seed of the scheduler for a mode.
pub fn scheduler_seed(plan_seed: u64, mode: &ExecMode) -> u64 {
  match mode {
    ExecMode::Reseed(k) => derive(plan_seed, "reseed", *k),
    _ => plan_seed,
  }
}

/// Runs `f` as the main task of one shuttle execution under the scheduler the mode asks for.
pub fn run_scheduled<F>(kind: &Kind, plan_seed: u64, mode: &ExecMode, max_steps: usize, f: F) -> SchedReport
where
  F: Fn() + Send + Sync + 'static,
{
  install();
  let tape = Tape::default();
  let scheduler: Box<dyn Scheduler + Send> = match mode {
    ExecMode::Replay(v) => Box::new(Replayer::new(Recording::from_json(v.get("recording").unwrap_or(&Value::Null)), tape.clone())),
    _ => Box::new(Recorder::new(kind.make(scheduler_seed(plan_seed, mode)), tape.clone())),
  };
  let mut config = shuttle::Config::new();
  config.stack_size = 8 * 1024 * 1024;
  config.failure_persistence = shuttle::FailurePersistence::None;
  config.max_steps = shuttle::MaxSteps::FailAfter(max_steps);
  config.silence_warnings = true;
  let runner = shuttle::Runner::new(scheduler, config);
  dmntk_verif_sync::reset_between_executions();
  dmntk_verif_sync::set_sim_active(true);
  let result = catch_unwind(AssertUnwindSafe(|| {
    runner.run(f);
  }));
  dmntk_verif_sync::set_sim_active(false);
  dmntk_verif_sync::reset_between_executions();
  let failure = match result {
    Ok(()) => None,
    Err(payload) => {
      let msg = if let Some(s) = payload.downcast_ref::<&str>() {
        s.to_string()
      } else if let Some(s) = payload.downcast_ref::<String>() {
        s.clone()
      } else {
        "<non-string panic payload>".to_string()
      };
      if msg.contains("deadlock!") {
        Some(SchedFailure::Deadlock(msg))
      } else if msg.contains("exceeded max_steps") {
        Some(SchedFailure::StepBound)
      } else {
        Some(SchedFailure::Panic(msg))
      }
    }
  };
  let recording = tape.recording.lock().map(|r| r.clone()).unwrap_or_default();
  SchedReport {
    failure,
    recording,
    switches: tape.switches.load(Ordering::Relaxed),
    diverged: tape.diverged.load(Ordering::SeqCst),
  }
}
