//! C18 - the HTTP service always answers well-formed JSON reflecting the workspace.
//!
//! The whole service runs in one process: the real actix `App` (router, extractors, handlers,
//! DTOs, workspace, evaluators) once per simulated worker over one shared application data;
//! workers and clients are shuttle tasks; the transport (loss, duplication, reordering,
//! segmentation, reset, corruption, oversize) and the clock are the simulator's.
//! Oracles: R1 every request that reached a worker gets exactly one well-formed JSON answer,
//! R2 echo values decode to what was sent, R3 the server-side history is linearizable against
//! the relational workspace specification and the final snapshot is one of the specification's
//! final states, R4 a fault-free epilogue is served and the lock is not poisoned.

use crate::c17::{check_invariants, remove_allows, Elem};
use crate::core::*;
use crate::driver::{panic_site, scratch_dir};
use crate::http::{build_app, make_request, percent_encode, poll_call, AppService, BodyState, BoxedCall, PollResult, Resp};
use crate::jsonval::{describe, parse_strict, Val, J};
use crate::models::*;
use crate::rng::{derive, Hasher, Rng};
use crate::sched::Kind;
use crate::simrt::{self, PointFaults, SchedFailure};
use dmntk_server::VerifAppData;
use dmntk_workspace::Workspace;
use serde_json::{json, Value};
use shuttle::rand::RngCore;
use std::cell::RefCell;
use std::collections::{BTreeMap, BTreeSet, HashSet};
use std::rc::Rc;
use std::sync::{Arc, Mutex, OnceLock};

pub struct C18;

struct Setup {
  models: Vec<AlphaModel>,
  facts: AlphaFacts,
}

static SETUP: OnceLock<Setup> = OnceLock::new();

fn setup() -> &'static Setup {
  SETUP.get_or_init(|| {
    let models = alphabet();
    let facts = establish_facts(&models);
    Setup { models, facts }
  })
}

fn canonical_key(key: &str) -> &str {
  if key == "G" {
    "B"
  } else {
    key
  }
}

fn elem_of(s: &Setup, key: &str) -> Option<Elem> {
  s.facts.keys.get(key).map(|(ns, name)| Elem {
    ns: ns.clone(),
    name: name.clone(),
    key: canonical_key(key).to_string(),
  })
}

// ------------------------------------------------------------------------------------------------
// requests
// ------------------------------------------------------------------------------------------------

/// What the specification needs to know about a request.
#[derive(Clone, Debug)]
enum Op {
  Info,
  Clear,
  Deploy,
  Add(String),
  Replace(String),
  Remove(String, String),
  EvalD(String),
  Echo(String, Val, bool),
  Tod(String),
  /// Evaluation whose answer the property leaves open (unknown invocable, odd built-in arguments).
  EvalAny(String),
  /// A malformed request: changes nothing; `true` = must be answered with errors.
  Malformed(bool),
  /// A well-formed add sent with a missing or wrong media type: the service may refuse it (errors, no effect)
  /// or be lenient (then it is an add like any other); the property demands neither.
  MaybeAdd(String),
}

impl Op {
  fn kind(&self) -> &'static str {
    match self {
      Op::Info => "info",
      Op::Clear => "clear",
      Op::Deploy => "deploy",
      Op::Add(_) => "add",
      Op::Replace(_) => "replace",
      Op::Remove(_, _) => "remove",
      Op::EvalD(_) => "evaluate",
      Op::Echo(_, _, false) => "echo",
      Op::Echo(_, _, true) => "tck-echo",
      Op::Tod(_) => "evaluate-time-of-day",
      Op::EvalAny(_) => "evaluate-any",
      Op::Malformed(_) => "malformed",
      Op::MaybeAdd(_) => "malformed",
    }
  }
}

struct Built {
  method: &'static str,
  path: String,
  content_type: Option<&'static str>,
  body: Vec<u8>,
  op: Op,
  /// Label for signatures and logs.
  label: String,
}

fn b64(bytes: &[u8]) -> String {
  base64::encode(bytes)
}

const MALFORMED: [&str; 51] = [
  "tck_scale_beyond_precision",
  "add_b64_damaged",
  "add_b64_damaged",
  "tck_odd_input_shape",
  "tck_number_with_nul",
  "add_b64_other_spelling",
  "add_b64_short_text",
  "eval_token_soup",
  "eval_token_soup",
  "eval_token_soup",
  "eval_builtin_on_odd_values",
  "eval_builtin_on_odd_values",
  "eval_builtin_on_odd_values",
  "eval_generated_expression",
  "eval_generated_expression",
  "eval_generated_expression",
  "eval_computed_number",
  "eval_computed_number",
  "eval_long_nonascii_broken_context",
  "add_b64_long_nonascii_not_xml",
  "tck_long_nonascii_unknown_model",
  "eval_path_bad_percent_encoding",
  "eval_path_too_deep",
  "eval_path_empty_segment",
  "add_broken_json",
  "add_missing_content",
  "add_wrong_member_type",
  "add_invalid_base64",
  "add_b64_invalid_utf8",
  "add_b64_not_xml",
  "add_b64_xml_not_model",
  "add_no_content_type",
  "add_wrong_content_type",
  "add_empty_body",
  "replace_broken_json",
  "replace_invalid_base64",
  "replace_b64_not_xml",
  "remove_missing_name",
  "remove_broken_json",
  "eval_unknown_model",
  "eval_unknown_invocable",
  "eval_broken_context",
  "eval_odd_builtin_arguments",
  "eval_nonutf8_body",
  "eval_empty_body",
  "tck_missing_input",
  "tck_unknown_type",
  "tck_bad_number",
  "tck_broken_json",
  "unknown_route",
  "wrong_method",
];

/// Numbers an input context can compute (the body of `/evaluate` is a FEEL context, its entries are
/// expressions): beyond the range of decimal128, not numbers at all, signed zero, 34-digit results.
const ODD_NUMBERS: [&str; 16] = [
  "(10 ** 6000) * (10 ** 6000)",
  "(10 ** 6000) * (10 ** 6000) * -1",
  "(10 ** 6000) * (10 ** 6000) - (10 ** 6000) * (10 ** 6000)",
  "exp(100000)",
  "floor((10 ** 6000) * (10 ** 6000))",
  "(10 ** 6144) * 10",
  "10 ** 400",
  "10 ** -400",
  "(10 ** -6000) * (10 ** -6000)",
  "0 * -1",
  "2 ** 0.5",
  "-(1 / 3)",
  "9999999999999999999999999999999999 * 9999999999999999999999999999999999",
  "sum([10 ** 6144, 10 ** 6144 * 9])",
  "max([1, (10 ** 6000) * (10 ** 6000)])",
  "(10 ** 6000) * (10 ** 6000) / ((10 ** 6000) * (10 ** 6000))",
];

/// Built-in functions of the implementation and values of every kind at and beyond their range: an entry of
/// a request body may apply any function or operator to any of them and must still be answered.
const BUILTINS: [(&str, &[usize]); 74] = [
  ("abs", &[1]), ("after", &[2]), ("all", &[1, 3]), ("any", &[1, 3]), ("append", &[2, 3]), ("before", &[2]), ("ceiling", &[1]), ("coincides", &[2]), ("concatenate", &[2, 3]), ("contains", &[2]), ("count", &[1]),
  ("date", &[1, 3]), ("date and time", &[1, 2]), ("day of week", &[1]), ("day of year", &[1]), ("decimal", &[2]), ("distinct values", &[1]), ("duration", &[1]), ("during", &[2]), ("ends with", &[2]), ("even", &[1]),
  ("exp", &[1]), ("finished by", &[2]), ("finishes", &[2]), ("flatten", &[1]), ("floor", &[1]), ("get entries", &[1]), ("get value", &[2]), ("includes", &[2]), ("index of", &[2]), ("insert before", &[3]), ("is", &[2]),
  ("list contains", &[2]), ("log", &[1]), ("lower case", &[1]), ("matches", &[2, 3]), ("max", &[1, 3]), ("mean", &[1, 3]), ("median", &[1, 3]), ("meets", &[2]), ("met by", &[2]), ("min", &[1, 3]), ("mode", &[1, 3]),
  ("modulo", &[2]), ("month of year", &[1]), ("not", &[1]), ("number", &[3]), ("odd", &[1]), ("overlaps after", &[2]), ("overlaps before", &[2]), ("product", &[1, 3]), ("remove", &[2]), ("replace", &[3, 4]),
  ("reverse", &[1]), ("sort", &[2]), ("split", &[2]), ("sqrt", &[1]), ("started by", &[2]), ("starts", &[2]), ("starts with", &[2]), ("stddev", &[1, 3]), ("string", &[1]), ("string length", &[1]), ("sublist", &[2, 3]),
  ("substring", &[2, 3]), ("substring after", &[2]), ("substring before", &[2]), ("sum", &[1, 3]), ("time", &[1, 3, 4]), ("union", &[2, 3]), ("upper case", &[1]), ("week of year", &[1]),
  ("years and months duration", &[2]), ("string join", &[1, 2]),
];
const ODD_VALUES: [&str; 56] = [
  "null", "0", "-1", "1", "2", "3", "0.5", "-0.5", "10 ** 30", "-(10 ** 30)", "10 ** -30", "9999999999", "(10 ** 6000) * (10 ** 6000)", "\"\"", "\"a\"", "\"abc\"", "\"[\"", "\"(?\"", "\"\\\\\"", "\"$1\"",
  "\"\u{e9}\u{4e2d}\u{1F600}\"", "\"2021-03-28\"", "\"P1D\"", "\".\"", "\",\"", "true", "false", "[]", "[null]", "[1, 2, 3]", "[[1], [2, [3]]]", "[\"b\", \"a\"]", "[1, \"a\", null]", "[true, false]", "{}", "{a: 1}",
  "{a: {b: [1]}}", "{key: \"a\", value: 1}", "date(\"2021-03-28\")", "date(\"999999999-12-31\")", "date(\"-999999999-01-01\")", "time(\"10:20:30\")", "time(\"23:59:59.999999999+14:00\")",
  "time(10, 0, 0, duration(\"PT23H59M\"))", "time(10, 0, 0, duration(\"-PT99999H\"))", "date and time(\"2021-03-28T02:30:00@Europe/Warsaw\")", "date and time(\"-999999999-01-01T00:00:00Z\")",
  "date and time(\"999999999-12-31T23:59:59.999999999-14:00\")", "duration(\"P1D\")", "duration(\"-P999999999D\")", "duration(\"P1Y\")", "duration(\"P999999999Y\")", "[1..5]", "(1..5)",
  "[date(\"2021-01-01\")..date(\"2021-12-31\")]", "function(a, b) a < b",
];

pub fn debug_builtin_body(seed: u64) -> String {
  builtin_on_odd_values(seed)
}

fn builtin_on_odd_values(seed: u64) -> String {
  let mut rng = Rng::new(seed);
  let v = |rng: &mut Rng| -> String {
    let x = *rng.pick(&ODD_VALUES);
    if rng.chance(1, 8) {
      format!("-{}", x)
    } else {
      x.to_string()
    }
  };
  let e = match rng.index(10) {
    0..=5 => {
      let (f, arities) = *rng.pick(&BUILTINS);
      // mostly as many arguments as the function takes, sometimes any number
      let n = if rng.chance(6, 7) { *rng.pick(arities) } else { rng.index(5) };
      let args: Vec<String> = (0..n).map(|_| v(&mut rng)).collect();
      format!("{}({})", f, args.join(", "))
    }
    6 => format!("{} {} {}", v(&mut rng), rng.pick(&["+", "-", "*", "/", "**", "<", "<=", "=", "!=", "and", "or", "in"]), v(&mut rng)),
    7 => format!("{}[{}]", v(&mut rng), v(&mut rng)),
    8 => format!("{} between {} and {}", v(&mut rng), v(&mut rng), v(&mut rng)),
    _ => {
      let prop = *rng.pick(&["year", "month", "day", "weekday", "hour", "minute", "second", "time offset", "timezone", "years", "months", "days", "hours", "minutes", "seconds", "start", "end", "start included", "a", "key"]);
      format!("({}).{}", v(&mut rng), prop)
    }
  };
  match rng.index(3) {
    0 => format!("{{s: string({})}}", e),
    1 => format!("{{r: {}, s: string(r = r)}}", e),
    _ => format!("{{s: if {} then \"t\" else \"e\"}}", e),
  }
}

const ODD_CONTEXTS: [&str; 32] = [
  // a null that carries the texts of two nulls that carry the texts of two nulls ...: thirty entries
  "{a0: \"x\" - 1, a1: a0 - a0, a2: a1 - a1, a3: a2 - a2, a4: a3 - a3, a5: a4 - a4, a6: a5 - a5, a7: a6 - a6, a8: a7 - a7, a9: a8 - a8, a10: a9 - a9, a11: a10 - a10, a12: a11 - a11, a13: a12 - a12, a14: a13 - a13, a15: a14 - a14, a16: a15 - a15, a17: a16 - a16, a18: a17 - a17, a19: a18 - a18, a20: a19 - a19, a21: a20 - a20, a22: a21 - a21, a23: a22 - a22, a24: a23 - a23, a25: a24 - a24, a26: a25 - a25, a27: a26 - a26, a28: a27 - a27, a29: a28 - a28, s: string(a29)}",
  "{a0: \"x\" / 1, a1: a0 / a0, a2: a1 / a1, a3: a2 / a2, a4: a3 / a3, a5: a4 / a4, a6: a5 / a5, a7: a6 / a6, a8: a7 / a7, a9: a8 / a8, a10: a9 / a9, a11: a10 / a10, a12: a11 / a11, a13: a12 / a12, a14: a13 / a13, a15: a14 / a14, a16: a15 / a15, a17: a16 / a16, a18: a17 / a17, a19: a18 / a18, a20: a19 / a19, a21: a20 / a20, a22: a21 / a21, a23: a22 / a22, a24: a23 / a23, a25: a24 / a24, a26: a25 / a25, a27: a26 / a26, a28: a27 / a27, a29: a28 / a28, s: string(a29)}",
  // a function that invokes itself for ever (an entry of a context literal sees itself)
  "{f: function(n) f(n + 1), s: string(f(1))}",
  "{f: function(n) if n < 0 then 0 else 1 + f(n + 1), s: string(f(1))}",
  // an ordering function that is not an order, on more items than the standard library sorts by insertion
  "{s: string(sort([1,0,2,0,3,2,3,2,1,0,0,2,0,2,0,1,1,2,1,0,0], function(a,b) a != b))}",
  "{s: string(sort([1,0,2,0,3,2,3,2,1,0,0,2,0,2,0,1,1,2,1,0,0,5,4,3], function(a,b) modulo(a + b, 3) = 0))}",
  // a number that is not a number among many numbers, as a second, as the length of a sublist
  "{n: 10**6144*10 - 10**6144*10, s: string(median([0,n,14,0,7,14,0,7,14,0,n,14,0,7,14,0,7,14,0,7,14]))}",
  "{n: 10**6144*10 - 10**6144*10, s: string(mode([0,n,14,0,7,14,0,7,14,0,n,14,0,7,14,0,7,14,0,7,14]))}",
  "{n: 10**6144*10 - 10**6144*10, s: string(time(1, 0, n))}",
  "{n: 10**6144*10 - 10**6144*10, s: string(time(1, 0, n, duration(\"PT1H\")))}",
  "{s: string(sublist([1,2,3], 2, 18446744073709551615))}",
  "{s: string(sublist([1,2,3], -1, 18446744073709551615))}",
  // a list nested forty deep, as an input and as a computed value
  "{s: [[[[[[[[[[[[[[[[[[[[[[[[[[[[[[[[[[[[[[[[1]]]]]]]]]]]]]]]]]]]]]]]]]]]]]]]]]]]]]]]]}",
  "{l: [[[[[[[[[[[[[[[[[[[[[[[[[[[[[[[[[[[[[[[[1]]]]]]]]]]]]]]]]]]]]]]]]]]]]]]]]]]]]]]]], s: string(l instance of list<Any>)}",
  // an iteration whose range ends at the largest integer the iterator counts in
  "{s: string(count(for i in 9223372036854775807..9223372036854775807 return i))}",
  // a NUL character in a text converted to a number
  "{s: string(number(\"1\\u0000\", \".\", \",\"))}",
  // a name beginning with the part `in` where the variable of an iteration is expected
  "{s: string(for in+x in [1] return 1)}",
  "{s: string(some in-a in [1] satisfies true)}",
  // values that exist but are out of the range of what the date library represents
  "{s: string(time(10, 0, 0, duration(\"PT99999H\")) = time(\"10:00:00Z\"))}",
  "{s: string(date and time(date(\"2021-01-01\"), time(10, 0, 0, duration(\"PT24H\"))) - date and time(\"2021-01-01T10:00:00Z\"))}",
  "{s: string(time(10, 0, 0, duration(\"-P99999999999D\")) < time(\"10:00:00Z\"))}",
  "{s: string(date and time(\"262143-12-31T23:59:59-14:00\") - date and time(\"-262144-01-01T00:00:00+14:00\"))}",
  "{s: string(date(\"999999999-12-31\") + duration(\"P1D\"))}",
  "{s: string(years and months duration(date(\"-999999999-01-01\"), date(\"999999999-12-31\")))}",
  "{s: date(99999999999, 13, 40)}",
  "{s: 10 ** 9999999}",
  "{s: substring(\"abc\", 0, 99999999999999999999)}",
  "{s: 1 / 0}",
  "{s: string(date and time(\"2021-03-28T02:30:00@Europe/Warsaw\"))}",
  "{s: duration(\"P999999999999Y\")}",
  "{s: [1,2,3][99999999999]}",
  "{s: time(25, 61, 61)}",
];

fn build_request(s: &Setup, r: &Value) -> Built {
  let kind = pstr(r, "kind");
  let model_name = |key: &str| by_key(&s.models, key).map(|m| m.name).unwrap_or("none").to_string();
  let xml = |key: &str| by_key(&s.models, key).map(|m| m.xml.clone()).unwrap_or_default();
  // harmless variations of a well-formed JSON request: media type parameters, letter case, an extra member
  let variant = pu64(r, "variant") % 4;
  let json_post = |path: &str, body: String, op: Op, label: String| {
    let mut body = body;
    if variant == 2 && body.starts_with('{') && body.len() > 2 {
      body = format!("{{\"comment\": [1, {{\"x\": null}}], {}", &body[1..]);
    }
    Built {
      method: "POST",
      path: path.to_string(),
      content_type: Some(match variant {
        1 => "application/json; charset=utf-8",
        3 => "Application/JSON",
        _ => "application/json",
      }),
      body: body.into_bytes(),
      op,
      label,
    }
  };
  match kind {
    "info" => Built {
      method: "GET",
      path: "/system/info".into(),
      content_type: None,
      body: vec![],
      op: Op::Info,
      label: "info".into(),
    },
    "clear" => Built {
      method: "POST",
      path: "/definitions/clear".into(),
      content_type: None,
      body: vec![],
      op: Op::Clear,
      label: "clear".into(),
    },
    "deploy" => Built {
      method: "POST",
      path: "/definitions/deploy".into(),
      content_type: None,
      body: vec![],
      op: Op::Deploy,
      label: "deploy".into(),
    },
    "add" => {
      let m = pstr(r, "m");
      json_post("/definitions/add", json!({"content": b64(xml(m).as_bytes())}).to_string(), Op::Add(m.to_string()), format!("add {}", m))
    }
    "replace" => {
      let m = pstr(r, "m");
      json_post("/definitions/replace", json!({"content": b64(xml(m).as_bytes())}).to_string(), Op::Replace(m.to_string()), format!("replace {}", m))
    }
    "remove" => {
      let x = pstr(r, "ns");
      let y = pstr(r, "name");
      let ns = by_key(&s.models, x).map(|m| m.namespace).unwrap_or("urn:none");
      let name = by_key(&s.models, y).map(|m| m.name).unwrap_or("none");
      json_post("/definitions/remove", json!({"namespace": ns, "name": name}).to_string(), Op::Remove(ns.to_string(), name.to_string()), format!("remove ns({}),name({})", x, y))
    }
    "eval" => {
      let m = pstr(r, "m");
      Built {
        method: "POST",
        path: format!("/evaluate/{}/d", percent_encode(&model_name(m))),
        content_type: None,
        body: b"{}".to_vec(),
        op: Op::EvalD(model_name(m)),
        label: format!("evaluate {}/d", model_name(m)),
      }
    }
    "tod" => {
      let m = pstr(r, "m");
      Built {
        method: "POST",
        path: format!("/evaluate/{}/tod", percent_encode(&model_name(m))),
        content_type: None,
        body: b"{}".to_vec(),
        op: Op::Tod(model_name(m)),
        label: format!("evaluate {}/tod", model_name(m)),
      }
    }
    "echo" => {
      let m = pstr(r, "m");
      let dec = pstr(r, "dec");
      let sv = Val::Str(pstr(r, "s").to_string());
      let nv = Val::Num(if pstr(r, "n").is_empty() { "0".to_string() } else { pstr(r, "n").to_string() });
      let bv = Val::Bool(pbool(r, "b"));
      // collection and component typed inputs: numbers list, person {name, age, scores}
      let nums: Vec<Val> = pstr(r, "nums").split(',').filter(|x| !x.is_empty()).map(|x| Val::Num(x.to_string())).collect();
      let person = Val::Ctx(vec![("name".into(), sv.clone()), ("age".into(), nv.clone()), ("scores".into(), Val::List(nums.clone()))]);
      // raw TCK input overriding the generic rendering (nil list, nil component)
      let mut raw_tck: Option<Value> = None;
      // (decision, inputs by name, value the decision must return)
      let (decision, inputs, expected): (String, Vec<(&str, Val)>, Val) = match dec {
        "l" => ("echo_l".into(), vec![("l", Val::List(nums.clone()))], Val::List(nums.clone())),
        "p" => ("echo_p".into(), vec![("p", person.clone())], person.clone()),
        "lnil" => {
          raw_tck = Some(json!([{"name": "l", "value": {"list": {"items": [], "isNil": true}}}]));
          ("echo_l".into(), vec![("l", Val::Null)], Val::Null)
        }
        "pnil" => {
          raw_tck = Some(json!([{"name": "p", "value": {"components": [
            {"name": "name", "value": sv.to_tck(), "isNil": false},
            {"name": "age", "value": nv.to_tck(), "isNil": false},
            {"name": "scores", "value": {"list": {"items": [], "isNil": true}}, "isNil": false}
          ]}}]));
          let pn = Val::Ctx(vec![("name".into(), sv.clone()), ("age".into(), nv.clone()), ("scores".into(), Val::Null)]);
          ("echo_p".into(), vec![("p", pn.clone())], pn)
        }
        "n" => ("echo_n".into(), vec![("n", nv.clone())], nv.clone()),
        "scale" => {
          let sc = pi64(r, "sc");
          // what the decision returns is established by evaluating its expression directly (the service has
          // to render THAT value, whatever the rounding rule of `decimal` is); the simulator's own half-even
          // rounding only stands in when the expression cannot be evaluated here
          let expected = evaluated_directly(&format!("decimal({}, {})", pstr(r, "n"), sc), &[]).unwrap_or_else(|| Val::Num(crate::jsonval::round_half_even(pstr(r, "n"), sc).unwrap_or_else(|| "0".to_string())));
          ("scale_n".into(), vec![("n", nv.clone()), ("sc", Val::Num(sc.to_string()))], expected)
        }
        "b" => ("echo_b".into(), vec![("b", bv.clone())], bv.clone()),
        "snull" => match pu64(r, "fl") % 3 {
          0 => ("echo_s".into(), vec![("s", Val::Null)], Val::Null),
          1 => ("echo_n".into(), vec![("n", Val::Null)], Val::Null),
          _ => ("echo_b".into(), vec![("b", Val::Null)], Val::Null),
        },
        "mix" => (
          "echo_mix".into(),
          vec![("s", sv.clone()), ("n", nv.clone()), ("b", bv.clone())],
          Val::Ctx(vec![
            ("text".into(), sv.clone()),
            ("num".into(), nv.clone()),
            ("flag".into(), bv.clone()),
            ("list".into(), Val::List(vec![sv.clone(), nv.clone(), bv.clone(), Val::Null, Val::List(vec![sv.clone()])])),
            (
              "nested".into(),
              Val::Ctx(vec![("inner key".into(), sv.clone()), ("q\"k".into(), nv.clone()), ("deep".into(), Val::List(vec![Val::Ctx(vec![("z".into(), nv.clone())])]))]),
            ),
          ]),
        ),
        "many" => {
          // the expectation comes from evaluating the expression directly, so the number has to be writable as a
          // FEEL literal (no scientific notation)
          let plain = if pstr(r, "n").contains(|c| c == 'e' || c == 'E') || pstr(r, "n").is_empty() { Val::Num("7".to_string()) } else { nv.clone() };
          match evaluated_directly(MANY_EXPRESSION, &[("s", &sv), ("n", &plain), ("b", &bv)]) {
            Some(expected) => ("many".into(), vec![("s", sv.clone()), ("n", plain.clone()), ("b", bv.clone())], expected),
            // not evaluable here (say, a number beyond the precision): fall back to the plain echo
            None => ("echo_s".into(), vec![("s", sv.clone())], sv.clone()),
          }
        }
        "keys" => (
          "odd_keys".into(),
          vec![("s", sv.clone()), ("n", nv.clone()), ("b", bv.clone())],
          // as evaluated directly (names may be normalised by the implementation); the literal expectation
          // stands in when the inputs cannot be written as FEEL literals (scientific notation)
          evaluated_directly(ODD_KEYS_EXPRESSION, &[("s", &sv), ("n", &nv), ("b", &bv)]).unwrap_or_else(|| Val::Ctx(vec![
            ("".into(), sv.clone()),
            ("a\"b".into(), sv.clone()),
            ("1".into(), Val::List(vec![Val::List(vec![sv.clone()]), Val::List(vec![]), Val::List(vec![Val::List(vec![nv.clone(), Val::List(vec![bv.clone()])])])])),
            ("x\ty".into(), Val::Ctx(vec![("".into(), Val::List(vec![]))])),
            ("\\".into(), Val::Null),
            ("\u{e9}\u{4e2d}".into(), bv.clone()),
            ("k\u{1}".into(), nv.clone()),
            ("e".into(), Val::Ctx(vec![])),
            ("le".into(), Val::List(vec![Val::Ctx(vec![]), Val::List(vec![]), Val::Ctx(vec![("".into(), Val::Ctx(vec![]))])])),
          ])),
        ),
        "d" | "t" | "dt" | "dd" | "ym" => {
          let ty = match dec {
            "d" => "xsd:date",
            "t" => "xsd:time",
            "dt" => "xsd:dateTime",
            _ => "xsd:duration",
          };
          let v = Val::Typed(ty.to_string(), pstr(r, "tv").to_string());
          (format!("echo_{}", dec), vec![(dec, v.clone())], v)
        }
        _ => ("echo_s".into(), vec![("s", sv.clone())], sv.clone()),
      };
      if pbool(r, "tck") {
        let mut input: Value = raw_tck.unwrap_or_else(|| Value::Array(inputs.iter().map(|(k, v)| json!({"name": k, "value": v.to_tck()})).collect()));
        // other spellings XML Schema has for the same values: xsd:integer / xsd:double numbers, 1 / 0 booleans
        tck_flavour(&mut input, pu64(r, "fl"));
        let body = json!({"model": model_name(m), "invocable": decision, "input": input}).to_string();
        json_post("/tck/evaluate", body, Op::Echo(model_name(m), expected.clone(), true), format!("tck-echo {}", expected.class()))
      } else {
        let ctx = format!("{{{}}}", inputs.iter().map(|(k, v)| format!("{}: {}", k, v.to_feel())).collect::<Vec<_>>().join(", "));
        Built {
          method: "POST",
          path: format!("/evaluate/{}/{}", percent_encode(&model_name(m)), decision),
          content_type: None,
          body: ctx.into_bytes(),
          op: Op::Echo(model_name(m), expected.clone(), false),
          label: format!("echo {}", expected.class()),
        }
      }
    }
    _ => {
      let what = pstr(r, "what");
      let m = pstr(r, "m");
      let label = format!("malformed {}", what);
      let raw = |method: &'static str, path: &str, ct: Option<&'static str>, body: Vec<u8>, must_err: bool| Built {
        method,
        path: path.to_string(),
        content_type: ct,
        body,
        op: Op::Malformed(must_err),
        label: label.clone(),
      };
      let js = Some("application/json");
      match what {
        "add_broken_json" => raw("POST", "/definitions/add", js, b"{\"content\": \"abc".to_vec(), true),
        "add_missing_content" => raw("POST", "/definitions/add", js, b"{}".to_vec(), true),
        "add_wrong_member_type" => raw("POST", "/definitions/add", js, b"{\"content\": 5}".to_vec(), true),
        "add_invalid_base64" => raw("POST", "/definitions/add", js, b"{\"content\": \"!!!not base64!!!\"}".to_vec(), true),
        "add_b64_invalid_utf8" => raw("POST", "/definitions/add", js, json!({"content": b64(&[0xff, 0xfe, 0x80, 0x41])}).to_string().into_bytes(), true),
        "add_b64_not_xml" => raw("POST", "/definitions/add", js, json!({"content": b64(b"hello, this is not XML")}).to_string().into_bytes(), true),
        "add_b64_xml_not_model" => raw("POST", "/definitions/add", js, json!({"content": b64(b"<a><b c=\"d\"/></a>")}).to_string().into_bytes(), true),
        "add_no_content_type" => Built {
          method: "POST",
          path: "/definitions/add".into(),
          content_type: None,
          body: json!({"content": b64(xml(m).as_bytes())}).to_string().into_bytes(),
          op: Op::MaybeAdd(m.to_string()),
          label: label.clone(),
        },
        "add_wrong_content_type" => Built {
          method: "POST",
          path: "/definitions/add".into(),
          content_type: Some("text/plain"),
          body: json!({"content": b64(xml(m).as_bytes())}).to_string().into_bytes(),
          op: Op::MaybeAdd(m.to_string()),
          label: label.clone(),
        },
        // the same model in another spelling of base64 (no padding, line breaks, the URL-safe alphabet, padding
        // in the middle): the service may take it or refuse it
        "add_b64_other_spelling" => {
          let good = b64(xml(m).as_bytes());
          let content = match pu64(r, "n") % 6 {
            0 => good.trim_end_matches('=').to_string(),
            1 => format!("{}=", good.trim_end_matches('=')),
            2 => good.as_bytes().chunks(76).map(|c| String::from_utf8_lossy(c).to_string()).collect::<Vec<_>>().join("\r\n"),
            3 => good.replace('+', "-").replace('/', "_"),
            4 => format!(" {} ", good),
            _ => format!("{}===={}", &good[..good.len() / 2 / 4 * 4], &good[good.len() / 2 / 4 * 4..]),
          };
          Built {
            method: "POST",
            path: "/definitions/add".into(),
            content_type: js,
            body: json!({"content": content}).to_string().into_bytes(),
            op: Op::MaybeAdd(m.to_string()),
            label: label.clone(),
          }
        }
        // a good base64 text (whole, or its first 0..47 characters) damaged in transit or in the client: one to three
        // characters outside the alphabet - ASCII or multi-byte - put in or over the characters at a seeded position
        // (biased to the first and the last 24 bytes); base64 never accepts a byte outside its alphabet, so the
        // request must be refused and change nothing
        "add_b64_damaged" => {
          let mut g = Rng::new(pu64(r, "g") ^ 0xb64d);
          let good = b64(xml(m).as_bytes());
          let base: String = if g.chance(1, 2) { good.chars().take(g.below(48) as usize).collect() } else { good };
          let chars: Vec<char> = base.chars().collect();
          let at = match g.index(3) {
            0 => g.below(chars.len() as u64 + 1) as usize,
            1 => (g.below(25) as usize).min(chars.len()),
            _ => chars.len() - (g.below(25) as usize).min(chars.len()),
          };
          const DAMAGE: [&str; 14] = ["\u{e9}", "\u{17c}", "\u{4e2d}", "\u{6587}\u{5b57}", "\u{1F600}", "\u{85}", "\u{2028}", "!", " ", "\n", "\u{0}", "%", "\u{4e2d}\u{e9}\u{1F600}", "\u{7f}"];
          let damage = *g.pick(&DAMAGE);
          let over = if g.chance(1, 2) { 0 } else { (1 + g.index(3)).min(chars.len() - at) };
          let mut content: String = chars[..at].iter().collect();
          content.push_str(damage);
          if g.chance(1, 3) {
            content.push_str(*g.pick(&DAMAGE));
          }
          content.extend(chars[at + over..].iter());
          raw("POST", if pu64(r, "n") % 3 == 0 { "/definitions/replace" } else { "/definitions/add" }, js, json!({"content": content}).to_string().into_bytes(), true)
        }
        // base64 texts of every length from 1 to 9 characters, padded and not
        "add_b64_short_text" => {
          let n = pu64(r, "n");
          let text: String = "QUJDREVGR0g".chars().take(1 + (n % 9) as usize).collect();
          let content = if n % 2 == 0 { text } else { format!("{}=", text) };
          raw("POST", if n % 3 == 0 { "/definitions/replace" } else { "/definitions/add" }, js, json!({"content": content}).to_string().into_bytes(), true)
        }
        "add_empty_body" => raw("POST", "/definitions/add", js, vec![], true),
        "replace_broken_json" => raw("POST", "/definitions/replace", js, b"[1, 2".to_vec(), true),
        "replace_invalid_base64" => raw("POST", "/definitions/replace", js, b"{\"content\": \"%%%\"}".to_vec(), true),
        "replace_b64_not_xml" => raw("POST", "/definitions/replace", js, json!({"content": b64(b"no xml here")}).to_string().into_bytes(), true),
        "remove_missing_name" => raw("POST", "/definitions/remove", js, b"{\"namespace\": \"urn:a\"}".to_vec(), true),
        "remove_broken_json" => raw("POST", "/definitions/remove", js, b"{\"namespace\": ".to_vec(), true),
        "eval_unknown_model" => raw("POST", "/evaluate/no-such-model/d", None, b"{}".to_vec(), true),
        "eval_unknown_invocable" => Built {
          method: "POST",
          path: format!("/evaluate/{}/no-such-invocable", percent_encode(&model_name(m))),
          content_type: None,
          body: b"{}".to_vec(),
          op: Op::EvalAny(model_name(m)),
          label: label.clone(),
        },
        "eval_broken_context" => raw("POST", &format!("/evaluate/{}/d", percent_encode(&model_name(m))), None, b"{s: ".to_vec(), true),
        "eval_odd_builtin_arguments" => Built {
          method: "POST",
          path: format!("/evaluate/{}/echo_s", percent_encode(&model_name(m))),
          content_type: None,
          body: ODD_CONTEXTS[(pu64(r, "n") as usize) % ODD_CONTEXTS.len()].as_bytes().to_vec(),
          op: Op::EvalAny(model_name(m)),
          label: label.clone(),
        },
        "eval_computed_number" => {
          let k = pu64(r, "n") as usize;
          let e = ODD_NUMBERS[k % ODD_NUMBERS.len()];
          let (decision, body) = match (k / ODD_NUMBERS.len()) % 5 {
            0 => ("echo_n", format!("{{n: {}}}", e)),
            1 => ("echo_mix", format!("{{s: \"x\", n: {}, b: true}}", e)),
            2 => ("scale_n", format!("{{n: {}, sc: 2}}", e)),
            3 => ("echo_l", format!("{{l: [1, {}]}}", e)),
            _ => ("echo_p", format!("{{p: {{name: \"x\", age: {}, scores: [{}]}}}}", e, e)),
          };
          Built {
            method: "POST",
            path: format!("/evaluate/{}/{}", percent_encode(&model_name(m)), decision),
            content_type: None,
            body: body.into_bytes(),
            op: Op::EvalAny(model_name(m)),
            label: format!("{} {}", label, decision),
          }
        }
        // an expression of C13's grammar (context-pushing constructs, built-in functions, failing
        // sub-expressions) evaluated as an entry of the input context
        "eval_generated_expression" => Built {
          method: "POST",
          path: format!("/evaluate/{}/echo_s", percent_encode(&model_name(m))),
          content_type: None,
          body: crate::c13::generated_request_context(pu64(r, "g")).into_bytes(),
          op: Op::EvalAny(model_name(m)),
          label: label.clone(),
        },
        "eval_builtin_on_odd_values" => Built {
          method: "POST",
          path: format!("/evaluate/{}/echo_s", percent_encode(&model_name(m))),
          content_type: None,
          body: builtin_on_odd_values(pu64(r, "g")).into_bytes(),
          op: Op::EvalAny(model_name(m)),
          label: label.clone(),
        },
        // the FEEL vocabulary strung together: nearly always a syntax error, to be answered as one
        "eval_token_soup" => Built {
          method: "POST",
          path: format!("/evaluate/{}/echo_s", percent_encode(&model_name(m))),
          content_type: None,
          body: {
            let g = pu64(r, "g");
            match g % 3 {
              0 => format!("{{s: {}}}", crate::jsonval::feel_token_soup(g)),
              1 => format!("{{a: 1, b: [1, 2], x: \"v\", s: string({})}}", crate::jsonval::feel_token_soup(g)),
              _ => crate::jsonval::feel_token_soup(g),
            }
            .into_bytes()
          },
          op: Op::EvalAny(model_name(m)),
          label: label.clone(),
        },
        "eval_nonutf8_body" => raw("POST", &format!("/evaluate/{}/d", percent_encode(&model_name(m))), None, vec![b'{', 0xff, 0xfe, b'}'], true),
        "eval_empty_body" => Built {
          method: "POST",
          path: format!("/evaluate/{}/d", percent_encode(&model_name(m))),
          content_type: None,
          body: vec![],
          op: Op::EvalAny(model_name(m)),
          label: label.clone(),
        },
        "tck_missing_input" => raw("POST", "/tck/evaluate", js, json!({"model": model_name(m), "invocable": "d"}).to_string().into_bytes(), true),
        "tck_unknown_type" => raw(
          "POST",
          "/tck/evaluate",
          js,
          json!({"model": model_name(m), "invocable": "echo_s", "input": [{"name": "s", "value": {"simple": {"type": "xsd:nosuch", "text": "1", "isNil": false}}}]}).to_string().into_bytes(),
          true,
        ),
        "tck_bad_number" => Built {
          method: "POST",
          path: "/tck/evaluate".into(),
          content_type: js,
          body: json!({"model": model_name(m), "invocable": "echo_n", "input": [{"name": "n", "value": {"simple": {"type": "xsd:decimal", "text": "12abc", "isNil": false}}}]}).to_string().into_bytes(),
          op: Op::EvalAny(model_name(m)),
          label: label.clone(),
        },
        // TCK inputs of shapes a client library would not send: any well-formed answer will do
        "tck_odd_input_shape" => {
          let simple = json!({"type": "xsd:string", "text": "x", "isNil": false});
          let (invocable, input) = match pu64(r, "n") % 10 {
            0 => ("echo_s", json!([{"name": "s", "value": {"simple": simple, "list": {"items": [], "isNil": false}}}])),
            1 => ("echo_p", json!([{"name": "p", "value": {"components": []}}])),
            2 => ("echo_s", json!([{"name": "s", "value": {"simple": {"type": "xsd:string", "text": "x"}}}])),
            3 => ("echo_s", json!([{"name": "s", "value": {"simple": simple, "unknown": [1, {"a": null}]}, "more": true}])),
            4 => ("echo_s", json!([{"name": "s", "value": {"simple": simple}}, {"name": "s", "value": {"simple": {"type": "xsd:string", "text": "y", "isNil": false}}}])),
            5 => ("echo_l", json!([{"name": "l", "value": {"list": {"items": [{"simple": {"isNil": true}}, {"list": {"items": [{"simple": {"type": "xsd:decimal", "text": "1", "isNil": false}}], "isNil": false}}, {"components": []}], "isNil": false}}}])),
            6 => ("echo_s", json!({"name": "s", "value": {"simple": simple}})),
            7 => ("echo_s", json!([{"name": "s", "value": {"simple": {"type": "xsd:string", "isNil": false}}}])),
            8 => ("echo_p", json!([{"name": "p", "value": {"components": [{"name": "name", "value": {"simple": simple}}, {"name": "name", "value": {"simple": simple}}, {"value": {"simple": simple}}, {"name": "scores", "value": {"components": []}, "isNil": true}]}}])),
            _ => ("echo_s", json!([{"name": "s.t u", "value": {}}, {"name": "", "value": {"simple": simple}}, {"value": {"simple": simple}}, {"name": "s"}])),
          };
          Built {
            method: "POST",
            path: "/tck/evaluate".into(),
            content_type: js,
            body: json!({"model": model_name(m), "invocable": invocable, "input": input}).to_string().into_bytes(),
            op: Op::EvalAny(model_name(m)),
            label: format!("{} shape {}", label, pu64(r, "n") % 10),
          }
        }
        // a decision that rounds its input to a scale the 34 digits of a decimal number cannot hold: what `decimal`
        // returns then is the implementation's business (null, or a number that is not finite); whatever it is, the
        // answer must be well-formed and - rule tck-value-not-readable - a value the service itself can read
        "tck_scale_beyond_precision" => {
          let mut g = Rng::new(pu64(r, "g") ^ 0x5ca1e);
          let digits = 28 + g.index(7);
          let n: String = (0..digits).map(|i| char::from(b'0' + if i == 0 { 1 + g.index(9) } else { g.index(10) } as u8)).collect();
          let n = if g.chance(1, 3) { format!("-{}", n) } else { n };
          let sc = 8 + g.index(20);
          Built {
            method: "POST",
            path: "/tck/evaluate".into(),
            content_type: js,
            body: json!({"model": model_name(m), "invocable": "scale_n", "input": [
              {"name": "n", "value": {"simple": {"type": "xsd:decimal", "text": n, "isNil": false}}},
              {"name": "sc", "value": {"simple": {"type": "xsd:decimal", "text": sc.to_string(), "isNil": false}}}]}).to_string().into_bytes(),
            op: Op::EvalAny(model_name(m)),
            label: label.clone(),
          }
        }
        "tck_number_with_nul" => {
          let xsd_type = ["xsd:decimal", "xsd:integer", "xsd:double"][(pu64(r, "n") % 3) as usize];
          Built {
          method: "POST",
          path: "/tck/evaluate".into(),
          content_type: js,
          body: json!({"model": model_name(m), "invocable": "echo_n", "input": [{"name": "n", "value": {"simple": {"type": xsd_type, "text": "1\u{0}", "isNil": false}}}]}).to_string().into_bytes(),
          op: Op::EvalAny(model_name(m)),
          label: label.clone(),
        }
        }
        "tck_broken_json" => raw("POST", "/tck/evaluate", js, b"{\"model\": \"ma\", \"invocable\"".to_vec(), true),
        "unknown_route" => raw("POST", "/definitions/no-such-endpoint", js, b"{}".to_vec(), true),
        // error answers that quote several KiB of multi-byte text back (0..3 bytes of ASCII in front)
        "eval_long_nonascii_broken_context" => {
          let mut rng = Rng::new(pu64(r, "n"));
          raw("POST", &format!("/evaluate/{}/d", percent_encode(&model_name(m))), None, format!("{{s: \"{}\" t: 1}}", crate::jsonval::long_text(&mut rng)).into_bytes(), true)
        }
        "add_b64_long_nonascii_not_xml" => {
          let mut rng = Rng::new(pu64(r, "n"));
          raw("POST", "/definitions/add", js, json!({"content": b64(crate::jsonval::long_text(&mut rng).as_bytes())}).to_string().into_bytes(), true)
        }
        "tck_long_nonascii_unknown_model" => {
          let mut rng = Rng::new(pu64(r, "n"));
          raw("POST", "/tck/evaluate", js, json!({"model": crate::jsonval::long_text(&mut rng), "invocable": "d", "input": []}).to_string().into_bytes(), true)
        }
        "eval_path_bad_percent_encoding" => raw("POST", "/evaluate/%ff%fe/d", None, b"{}".to_vec(), true),
        "eval_path_too_deep" => raw("POST", "/evaluate/ma/d/extra", None, b"{}".to_vec(), true),
        "eval_path_empty_segment" => raw("POST", "/evaluate//d", None, b"{}".to_vec(), true),
        _ => raw("GET", "/definitions/clear", None, vec![], true),
      }
    }
  }
}

// ------------------------------------------------------------------------------------------------
// specification
// ------------------------------------------------------------------------------------------------

#[derive(Clone, Debug, PartialEq, Eq, PartialOrd, Ord, Hash)]
struct SpecState {
  stored: Vec<(String, String, String)>,
  deployed: BTreeMap<String, String>,
}

impl SpecState {
  fn elems(&self) -> Vec<Elem> {
    self.stored.iter().map(|(ns, name, key)| Elem { ns: ns.clone(), name: name.clone(), key: key.clone() }).collect()
  }
  fn from_elems(e: &[Elem], deployed: BTreeMap<String, String>) -> Self {
    SpecState {
      stored: e.iter().map(|x| (x.ns.clone(), x.name.clone(), x.key.clone())).collect(),
      deployed,
    }
  }
}

#[derive(Clone, Debug, PartialEq)]
enum RespClass {
  Data(J),
  Errors,
}

/// All sub-sequences of `before` allowed as the result of remove(ns, name).
fn remove_successors(before: &[Elem], ns: &str, name: &str) -> Vec<Vec<Elem>> {
  let partial: Vec<usize> = before.iter().enumerate().filter(|(_, e)| (e.ns == ns) != (e.name == name)).map(|(i, _)| i).collect();
  let mut out = vec![];
  for mask in 0..(1u32 << partial.len().min(8)) {
    let mut s = vec![];
    for (i, e) in before.iter().enumerate() {
      let both = e.ns == ns && e.name == name;
      if both {
        continue;
      }
      if let Some(p) = partial.iter().position(|x| *x == i) {
        if mask & (1 << p) != 0 {
          continue;
        }
      }
      s.push(e.clone());
    }
    debug_assert!(remove_allows(before, &s, ns, name).is_ok());
    if !out.contains(&s) {
      out.push(s);
    }
  }
  out
}

fn spec_step(s: &Setup, st: &SpecState, op: &Op, resp: &RespClass) -> Vec<SpecState> {
  let is_data = matches!(resp, RespClass::Data(_));
  let same = || vec![st.clone()];
  match op {
    Op::Info => {
      if is_data {
        same()
      } else {
        vec![]
      }
    }
    Op::Malformed(must_err) => {
      if *must_err && is_data {
        vec![]
      } else {
        same()
      }
    }
    Op::EvalAny(_) => same(),
    Op::MaybeAdd(key) => {
      if is_data {
        spec_step(s, st, &Op::Add(key.clone()), resp)
      } else {
        same()
      }
    }
    Op::Clear => {
      if is_data {
        vec![SpecState { stored: vec![], deployed: BTreeMap::new() }]
      } else {
        vec![]
      }
    }
    Op::Deploy => {
      // an `errors` answer is acceptable only as a report that some stored model did not build; the others must
      // be deployed all the same (checked through later evaluations and the snapshot at quiescence)
      let some_model_does_not_build = st.stored.iter().any(|(_, _, key)| !*s.facts.builds.get(key).unwrap_or(&false));
      if !is_data && !some_model_does_not_build {
        return vec![];
      }
      let mut dep = BTreeMap::new();
      for (_, name, key) in &st.stored {
        if *s.facts.builds.get(key).unwrap_or(&false) {
          dep.insert(name.clone(), key.clone());
        }
      }
      vec![SpecState { stored: st.stored.clone(), deployed: dep }]
    }
    Op::Add(key) => {
      let e = match elem_of(s, key) {
        Some(e) => e,
        None => return same(), // does not parse on this tree: an error answer without effect is all there is
      };
      let clash = st.stored.iter().any(|(ns, name, _)| *ns == e.ns || *name == e.name);
      match (clash, resp) {
        (true, RespClass::Errors) => same(),
        (false, RespClass::Data(d)) => {
          // the answer names the added model
          let ok = d.get("namespace") == Some(&J::Str(e.ns.clone())) && d.get("name") == Some(&J::Str(e.name.clone()));
          if !ok {
            return vec![];
          }
          let mut stored = st.stored.clone();
          stored.push((e.ns, e.name, e.key));
          vec![SpecState { stored, deployed: BTreeMap::new() }]
        }
        _ => vec![],
      }
    }
    Op::Replace(key) => {
      let e = match elem_of(s, key) {
        Some(e) => e,
        None => return same(),
      };
      let before = st.elems();
      let mut out = vec![];
      for s1 in remove_successors(&before, &e.ns, &e.name) {
        let clash = s1.iter().any(|x| x.ns == e.ns || x.name == e.name);
        let removed_any = s1.len() != before.len();
        match (clash, is_data) {
          (false, true) => {
            let mut s2 = s1.clone();
            s2.push(e.clone());
            out.push(SpecState::from_elems(&s2, BTreeMap::new()));
          }
          (true, false) => {
            if removed_any {
              out.push(SpecState::from_elems(&s1, BTreeMap::new()));
            } else {
              out.push(SpecState::from_elems(&s1, st.deployed.clone()));
              out.push(SpecState::from_elems(&s1, BTreeMap::new()));
            }
          }
          _ => {}
        }
      }
      out.sort();
      out.dedup();
      out
    }
    Op::Remove(ns, name) => {
      if !is_data {
        return vec![];
      }
      let before = st.elems();
      let mut out = vec![];
      for s1 in remove_successors(&before, ns, name) {
        if s1.len() != before.len() {
          out.push(SpecState::from_elems(&s1, BTreeMap::new()));
        } else {
          out.push(SpecState::from_elems(&s1, st.deployed.clone()));
          out.push(SpecState::from_elems(&s1, BTreeMap::new()));
        }
      }
      out.sort();
      out.dedup();
      out
    }
    Op::EvalD(name) => match (st.deployed.get(name), resp) {
      (Some(key), RespClass::Data(J::Str(text))) => {
        let want = s.facts.value_d.get(key).map(|v| v.trim_matches('"').to_string()).unwrap_or_default();
        if *text == want {
          same()
        } else {
          vec![]
        }
      }
      (None, RespClass::Errors) => same(),
      _ => vec![],
    },
    Op::Echo(name, _, _) => match (st.deployed.get(name), is_data) {
      (Some(_), true) => same(),
      (None, false) => same(),
      _ => vec![],
    },
    Op::Tod(name) => match (st.deployed.get(name), is_data) {
      (Some(_), _) => same(),
      (None, false) => same(),
      _ => vec![],
    },
  }
}

/// One completed request of the server-side history.
#[derive(Clone, Debug)]
struct HistOp {
  conn: usize,
  invoke: u64,
  ret: u64,
  op: Op,
  label: String,
  resp: RespClass,
}

/// Wing-Gong search with memoisation. Returns the set of final states over all linearizations,
/// or None when the node budget is exhausted.
fn linearize(s: &Setup, initial: &BTreeSet<SpecState>, hist: &[HistOp], budget: &mut u64) -> Option<BTreeSet<SpecState>> {
  let n = hist.len();
  let mut finals: BTreeSet<SpecState> = BTreeSet::new();
  let mut seen: HashSet<(u64, SpecState)> = HashSet::new();
  let mut stack: Vec<(u64, SpecState)> = initial.iter().map(|st| (0u64, st.clone())).collect();
  let full: u64 = if n == 64 { u64::MAX } else { (1u64 << n) - 1 };
  while let Some((done, st)) = stack.pop() {
    if *budget == 0 {
      return None;
    }
    *budget -= 1;
    if !seen.insert((done, st.clone())) {
      continue;
    }
    if done == full {
      finals.insert(st);
      continue;
    }
    // an operation may be linearized next when no other pending operation returned before it was invoked
    let min_ret = (0..n).filter(|i| done & (1 << i) == 0).map(|i| hist[i].ret).min().unwrap_or(u64::MAX);
    for i in 0..n {
      if done & (1 << i) != 0 {
        continue;
      }
      if hist[i].invoke > min_ret {
        continue;
      }
      for next in spec_step(s, &st, &hist[i].op, &hist[i].resp) {
        stack.push((done | (1 << i), next));
      }
    }
  }
  Some(finals)
}

// ------------------------------------------------------------------------------------------------
// the simulated network and its tasks
// ------------------------------------------------------------------------------------------------

#[derive(Clone, Debug, PartialEq)]
enum ConnState {
  New,
  Assigned(usize),
  Done,
}

struct Conn {
  client: usize,
  req_index: usize,
  spec: Value,
  state: ConnState,
  hold: u64,
  /// Does the client wait for this connection's answer?
  awaited: bool,
}

struct Net {
  conns: Vec<Conn>,
  seq: u64,
  clients_active: usize,
  /// client -> thread handle while it waits
  waiting_clients: BTreeMap<usize, shuttle::thread::Thread>,
  /// worker -> thread handle while it waits (a parked task may wake spuriously and register again)
  waiting_workers: BTreeMap<usize, shuttle::thread::Thread>,
  /// client -> has any awaited connection of its current request completed
  completed: BTreeSet<(usize, usize)>,
  history: Vec<HistOp>,
  violations: Vec<Violation>,
  log: Vec<String>,
  counters: Counters,
}

fn wake_workers(net: &Mutex<Net>) {
  let ws: BTreeMap<usize, shuttle::thread::Thread> = std::mem::take(&mut net.lock().unwrap().waiting_workers);
  for (_, w) in ws {
    w.unpark();
  }
}

struct InFlight {
  conn: usize,
  call: BoxedCall,
  body: Rc<RefCell<BodyState>>,
  /// Remaining segments to deliver; then EOF or reset.
  segments: std::collections::VecDeque<Vec<u8>>,
  reset_after_segments: bool,
  finished_delivery: bool,
  invoke: u64,
  built_op: Op,
  label: String,
  idle_polls: u32,
}

fn split_body(body: &[u8], n: usize, seed: u64) -> Vec<Vec<u8>> {
  if n <= 1 || body.len() < 2 {
    return vec![body.to_vec()];
  }
  let mut rng = Rng::new(seed);
  let mut cuts: Vec<usize> = (0..n - 1).map(|_| 1 + rng.index(body.len() - 1)).collect();
  cuts.sort_unstable();
  cuts.dedup();
  let mut out = vec![];
  let mut prev = 0;
  for c in cuts {
    out.push(body[prev..c].to_vec());
    prev = c;
  }
  out.push(body[prev..].to_vec());
  out
}

fn viol(rule: &str, site: &str, idx: u64, expected: String, observed: String) -> Violation {
  Violation::new(rule, format!("C18:{}:{}", rule, site), idx, expected, observed)
}

/// R1 (+R2 for echoes): classifies one response or reports why it is not acceptable.
fn classify_response(op: &Op, label: &str, resp: &Resp, seq: u64) -> Result<RespClass, Violation> {
  let short = |b: &[u8]| -> String { String::from_utf8_lossy(b).chars().take(240).collect() };
  let j = match parse_strict(&resp.body) {
    Ok(j) => j,
    Err(e) => {
      let site = match op {
        Op::Echo(_, val, tck) => format!("{}:{}", if *tck { "tck-echo" } else { "echo" }, val.class()),
        Op::Malformed(_) | Op::EvalAny(_) if label.contains("[damaged in transit") => {
          let how = if label.contains(": reset") { "reset" } else if label.contains(": oversize") { "oversize" } else { "corrupted" };
          format!("{}:damaged-in-transit:{}", label.split(' ').next().unwrap_or("?"), how)
        }
        Op::Malformed(_) => label.replace(' ', "-"),
        other => other.kind().to_string(),
      };
      return Err(viol(
        "response-not-json",
        &site,
        seq,
        format!("the answer to `{}` is a well-formed JSON document", label),
        format!("status {} content-type {:?}: {} at byte {}; body: {}", resp.status, resp.content_type, e.what, e.at, short(&resp.body)),
      ));
    }
  };
  let data = j.get("data");
  let errors = j.get("errors");
  let class = match (&j, data, errors) {
    (J::Obj(_), Some(d), None) => RespClass::Data(d.clone()),
    (J::Obj(_), None, Some(J::Arr(items))) if !items.is_empty() => RespClass::Errors,
    _ => {
      return Err(viol(
        "response-shape",
        &op.kind().to_string(),
        seq,
        format!("the answer to `{}` is an object with a `data` member or a non-empty `errors` array", label),
        format!("status {}: {}", resp.status, short(&resp.body)),
      ))
    }
  };
  // a value answered in TCK form is a value the service itself can read: every simple leaf that is not nil
  // carries a text its own reader of that type accepts
  if let RespClass::Data(d) = &class {
    if let Some(v) = d.get("value") {
      if let Err((ty, text)) = tck_leaves_readable(v) {
        return Err(viol(
          "tck-value-not-readable",
          &format!("{}:{}", op.kind(), ty),
          seq,
          format!("every simple value of the answer to `{}` can be read back by the service (Value::try_from_xsd_...)", label),
          format!("{} {:?} is refused; body: {}", ty, text, short(&resp.body)),
        ));
      }
    }
  }
  if let (Op::Echo(_, val, tck), RespClass::Data(d)) = (op, &class) {
    let r = if *tck {
      match d.get("value") {
        Some(v) => val.matches_tck(v),
        None => Err(format!("no `value` member in {}", describe(d))),
      }
    } else {
      val.matches_json(d)
    };
    if let Err(text) = r {
      return Err(viol(
        "echo-value-differs",
        &format!("{}:{}", if *tck { "tck-echo" } else { "echo" }, val.class()),
        seq,
        format!("the answer decodes to the value that was sent: {}", val.to_feel().chars().take(200).collect::<String>()),
        format!("{}; body: {}", text, short(&resp.body)),
      ));
    }
  }
  Ok(class)
}

/// Walks a value in TCK form and hands every simple leaf that is not nil to the reader of its type
/// (the code under test); the first leaf that is refused is returned as (type, text).
fn tck_leaves_readable(j: &J) -> Result<(), (String, String)> {
  use dmntk_feel::values::Value as F;
  if let Some(simple) = j.get("simple").filter(|s| **s != J::Null) {
    if simple.get("isNil") != Some(&J::Bool(true)) {
      if let (Some(J::Str(ty)), Some(J::Str(text))) = (simple.get("type"), simple.get("text")) {
        let read = std::panic::catch_unwind(|| match ty.as_str() {
          "xsd:integer" => F::try_from_xsd_integer(text).is_ok(),
          "xsd:decimal" => F::try_from_xsd_decimal(text).is_ok(),
          "xsd:double" => F::try_from_xsd_double(text).is_ok(),
          "xsd:boolean" => F::try_from_xsd_boolean(text).is_ok(),
          "xsd:date" => F::try_from_xsd_date(text).is_ok(),
          "xsd:time" => F::try_from_xsd_time(text).is_ok(),
          "xsd:dateTime" => F::try_from_xsd_date_time(text).is_ok(),
          "xsd:duration" => F::try_from_xsd_duration(text).is_ok(),
          _ => true,
        });
        if !matches!(read, Ok(true)) {
          return Err((ty.clone(), text.clone()));
        }
      }
    }
  }
  if let Some(J::Arr(items)) = j.get("list").and_then(|l| l.get("items")) {
    for i in items {
      tck_leaves_readable(i)?;
    }
  }
  if let Some(J::Arr(components)) = j.get("components") {
    for c in components {
      if let Some(v) = c.get("value") {
        tck_leaves_readable(v)?;
      }
    }
  }
  Ok(())
}

struct WorkerCtx {
  me: usize,
  net: Arc<Mutex<Net>>,
  data: VerifAppData,
}

fn worker_main(w: WorkerCtx, s: &'static Setup) {
  let mut app: Box<dyn AppService> = match build_app(&w.data) {
    Some(a) => a,
    None => {
      w.net.lock().unwrap().violations.push(viol("harness", "app-not-built", 0, "the application builds".into(), "init_service did not complete".into()));
      return;
    }
  };
  let mut inflight: Vec<InFlight> = vec![];
  loop {
    dmntk_verif_sync::flush();
    // collect the events this worker could process now
    enum Action {
      Accept(usize),
      Deliver(usize),
      Wait,
      Exit,
    }
    let action = {
      let mut net = w.net.lock().unwrap();
      let mut cands: Vec<Action> = vec![];
      let mut held: Vec<usize> = vec![];
      for (i, c) in net.conns.iter().enumerate() {
        if c.state == ConnState::New {
          if c.hold == 0 {
            cands.push(Action::Accept(i));
          } else {
            held.push(i);
          }
        }
      }
      for (k, f) in inflight.iter().enumerate() {
        if !f.finished_delivery {
          cands.push(Action::Deliver(k));
        }
      }
      if cands.is_empty() && !held.is_empty() {
        // nothing else to do: a held back message is delivered after all
        for i in &held {
          net.conns[*i].hold = 0;
        }
        cands.push(Action::Accept(held[0]));
      } else {
        for i in &held {
          net.conns[*i].hold -= 1;
        }
      }
      if cands.is_empty() {
        if net.clients_active == 0 && inflight.is_empty() {
          Action::Exit
        } else if inflight.is_empty() {
          net.waiting_workers.insert(w.me, shuttle::thread::current());
          Action::Wait
        } else {
          // in-flight requests whose body is delivered completely: poll them again
          Action::Deliver(usize::MAX)
        }
      } else {
        let n = cands.len();
        drop(net);
        let pick = (shuttle::rand::thread_rng().next_u64() % n as u64) as usize;
        let mut net = w.net.lock().unwrap();
        // re-validate an accept (another worker may have taken the connection meanwhile)
        match cands.swap_remove(pick) {
          Action::Accept(i) => {
            if net.conns[i].state == ConnState::New {
              net.conns[i].state = ConnState::Assigned(w.me);
              Action::Accept(i)
            } else {
              continue;
            }
          }
          other => other,
        }
      }
    };
    let mut polled: Vec<usize> = vec![];
    match action {
      Action::Exit => break,
      Action::Wait => {
        shuttle::thread::park();
        continue;
      }
      Action::Accept(i) => {
        let spec = w.net.lock().unwrap().conns[i].spec.clone();
        let built = build_request(s, &spec);
        let netf = &spec["net"];
        let mut body = built.body.clone();
        // corruption that still arrives as a complete message
        if let Some(c) = netf.get("truncate").and_then(|v| v.as_u64()) {
          if body.len() > 1 {
            let cut = 1 + (c as usize) % (body.len() - 1);
            body.truncate(cut);
          }
        }
        if let Some(c) = netf.get("flip").and_then(|v| v.as_u64()) {
          if !body.is_empty() {
            let at = (c as usize / 8) % body.len();
            body[at] ^= 1 << (c % 8);
          }
        }
        if pbool(netf, "oversize") {
          let limit = if built.content_type.map(|c| c.to_ascii_lowercase().starts_with("application/json")).unwrap_or(false) { 4 * 1024 * 1024 } else { 256 * 1024 };
          body.resize(limit + 1024, b' ');
        }
        let nseg = (pu64(netf, "segments") as usize).max(1);
        let mut segments: std::collections::VecDeque<Vec<u8>> = split_body(&body, nseg, pu64(netf, "cut_seed")).into();
        let mut reset = false;
        if let Some(k) = netf.get("reset_after").and_then(|v| v.as_u64()) {
          let keep = (k as usize).min(segments.len().saturating_sub(1));
          segments.truncate(keep);
          reset = true;
        }
        // a request the transport damaged is a malformed request: it changes nothing; a damaged JSON body
        // (cut strictly inside, oversize, reset) must be answered with errors, a damaged evaluation body
        // may still be a valid context, so any well-formed answer is accepted for it
        // handlers that take no body (info, clear, deploy) never look at it
        let bodyless = matches!(built.op, Op::Info | Op::Clear | Op::Deploy);
        let damaged = !bodyless && (body != built.body || reset);
        let mut built_op = built.op.clone();
        let mut label = built.label.clone();
        if damaged {
          let json_endpoint = built.content_type.map(|c| c.to_ascii_lowercase().starts_with("application/json")).unwrap_or(false);
          let hard = reset || pbool(netf, "oversize");
          // a cut strictly inside a JSON document always leaves an invalid one; a flipped bit may not
          let cut = netf.get("truncate").map(|v| !v.is_null()).unwrap_or(false);
          built_op = match &built.op {
            Op::Malformed(m) => Op::Malformed(*m),
            Op::MaybeAdd(_) => Op::Malformed(true),
            _ if hard || (json_endpoint && cut) => Op::Malformed(true),
            Op::EvalD(n) | Op::Echo(n, _, _) | Op::Tod(n) | Op::EvalAny(n) => Op::EvalAny(n.clone()),
            other => other.clone(),
          };
          label = format!("{} [damaged in transit{}]", built.label, if reset { ": reset" } else if pbool(netf, "oversize") { ": oversize" } else { "" });
        }
        let state = Rc::new(RefCell::new(BodyState::default()));
        let req = make_request(built.method, &built.path, built.content_type, Some(body.len()), Rc::clone(&state));
        let invoke = {
          let mut net = w.net.lock().unwrap();
          net.seq += 1;
          let seq = net.seq;
          net.log.push(format!("#{} worker {} accepts conn {} ({})", seq, w.me, i, label));
          seq
        };
        let call = app.start(req);
        inflight.push(InFlight {
          conn: i,
          call,
          body: state,
          segments,
          reset_after_segments: reset,
          finished_delivery: false,
          invoke,
          built_op,
          label: label.clone(),
          idle_polls: 0,
        });
        let k = inflight.len() - 1;
        deliver_next(&mut inflight[k]);
        polled.push(k);
      }
      Action::Deliver(k) => {
        if k == usize::MAX {
          for j in 0..inflight.len() {
            inflight[j].idle_polls += 1;
            polled.push(j);
          }
        } else {
          deliver_next(&mut inflight[k]);
          polled.push(k);
          if inflight.len() > 1 {
            w.net.lock().unwrap().counters.inc("probe.segment_delivered_while_other_request_in_flight");
          }
        }
      }
    }
    // poll the affected requests once
    let mut finished: Vec<usize> = vec![];
    for k in polled {
      let f = &mut inflight[k];
      match poll_call(&mut f.call) {
        PollResult::Pending => {
          if f.finished_delivery && f.idle_polls > 8 {
            let mut net = w.net.lock().unwrap();
            net.seq += 1;
            let seq = net.seq;
            net.violations.push(viol("no-response", &format!("never-completes:{}", f.built_op.kind()), seq, format!("`{}` is answered once its body has arrived completely", f.label), "the request future stays pending".into()));
            finished.push(k);
          }
        }
        PollResult::Ready(resp) => {
          dmntk_verif_sync::flush();
          let mut net = w.net.lock().unwrap();
          net.seq += 1;
          let seq = net.seq;
          net.log.push(format!("#{} worker {} answers conn {} ({}): {} {}", seq, w.me, f.conn, f.label, resp.status, String::from_utf8_lossy(&resp.body).chars().take(160).collect::<String>()));
          if resp.content_type.starts_with("application/json") {
            net.counters.inc("response.content_type.json");
          } else {
            net.counters.inc("response.content_type.other");
          }
          match classify_response(&f.built_op, &f.label, &resp, seq) {
            Ok(class) => {
              net.history.push(HistOp {
                conn: f.conn,
                invoke: f.invoke,
                ret: seq,
                op: f.built_op.clone(),
                label: f.label.clone(),
                resp: class,
              });
            }
            Err(v) => net.violations.push(v),
          }
          finished.push(k);
        }
        PollResult::Panicked(record) => {
          dmntk_verif_sync::flush();
          {
            let mut net = w.net.lock().unwrap();
            net.seq += 1;
            let seq = net.seq;
            net.log.push(format!("#{} worker {} PANIC in conn {} ({}): {}", seq, w.me, f.conn, f.label, record));
            net.counters.inc("handler.panics");
            if record.contains(simrt::RECURSION_PROBE) {
              // hook H6 ended a recursion through FEEL function bodies at its limit; without the probe the
              // stack overflows and the whole service process aborts
              net.violations.push(viol(
                "unbounded-recursion",
                "feel-function-invocation",
                seq,
                format!("`{}` is answered with a JSON document and the service goes on", f.label),
                format!("function bodies nest deeper than {} invocations: nothing limits the recursion", simrt::RECURSION_LIMIT),
              ));
            } else {
              net.violations.push(viol("no-response", &format!("panic:{}", panic_site(&record)), seq, format!("`{}` is answered with a JSON document", f.label), format!("the handler panicked at {}", record)));
            }
          }
          finished.push(k);
          // whatever a real worker thread does after a panic, later requests meet the same shared data
          if let Some(a) = build_app(&w.data) {
            app = a;
          }
        }
      }
    }
    finished.sort_unstable();
    for k in finished.into_iter().rev() {
      let f = inflight.remove(k);
      let client = {
        let mut net = w.net.lock().unwrap();
        net.conns[f.conn].state = ConnState::Done;
        let key = (net.conns[f.conn].client, net.conns[f.conn].req_index);
        if net.conns[f.conn].awaited {
          net.completed.insert(key);
        }
        net.waiting_clients.remove(&key.0)
      };
      if let Some(c) = client {
        c.unpark();
      }
    }
  }
}

fn deliver_next(f: &mut InFlight) {
  if f.finished_delivery {
    return;
  }
  let mut st = f.body.borrow_mut();
  match f.segments.pop_front() {
    Some(seg) => {
      st.chunks.push_back(seg);
      if f.segments.is_empty() && !f.reset_after_segments {
        st.eof = true;
        f.finished_delivery = true;
      }
    }
    None => {
      if f.reset_after_segments {
        st.reset = true;
      } else {
        st.eof = true;
      }
      f.finished_delivery = true;
    }
  }
}

fn client_main(me: usize, requests: Vec<Value>, net: Arc<Mutex<Net>>) {
  for (ri, r) in requests.iter().enumerate() {
    if pstr(r, "kind") == "clock" {
      // the wall clock jumps between two requests of this client
      simrt::clock_set(pi64(r, "days"), pi64(r, "tick"));
      let mut n = net.lock().unwrap();
      n.counters.inc("fault.clock_jump");
      n.log.push(format!("client {} sets the clock to day {} tick {}", me, pi64(r, "days"), pi64(r, "tick")));
      continue;
    }
    let netf = &r["net"];
    if pbool(netf, "drop") {
      let mut n = net.lock().unwrap();
      n.counters.inc("fault.request_dropped");
      n.log.push(format!("client {} request {} dropped by the network", me, ri));
      continue;
    }
    let dup = pbool(netf, "dup");
    let awaited = !pbool(netf, "drop_response");
    {
      let mut n = net.lock().unwrap();
      for _ in 0..(if dup { 2 } else { 1 }) {
        n.conns.push(Conn {
          client: me,
          req_index: ri,
          spec: r.clone(),
          state: ConnState::New,
          hold: pu64(netf, "hold"),
          awaited,
        });
      }
      if dup {
        n.counters.inc("fault.request_duplicated");
      }
      if !awaited {
        n.counters.inc("fault.response_dropped");
      }
      if pu64(netf, "hold") > 0 {
        n.counters.inc("fault.request_held_back");
      }
      if pu64(netf, "segments") > 1 {
        n.counters.inc("fault.body_segmented");
      }
      if netf.get("reset_after").map(|v| !v.is_null()).unwrap_or(false) {
        n.counters.inc("fault.connection_reset_mid_body");
      }
      if netf.get("truncate").map(|v| !v.is_null()).unwrap_or(false) {
        n.counters.inc("fault.body_truncated");
      }
      if netf.get("flip").map(|v| !v.is_null()).unwrap_or(false) {
        n.counters.inc("fault.body_bit_flip");
      }
      if pbool(netf, "oversize") {
        n.counters.inc("fault.body_oversize");
      }
    }
    wake_workers(&net);
    if !awaited {
      // the answer never arrives: the client goes on at once (its time-out is not modelled as time)
      shuttle::thread::sleep(std::time::Duration::ZERO);
      continue;
    }
    loop {
      {
        let mut n = net.lock().unwrap();
        if n.completed.contains(&(me, ri)) {
          break;
        }
        n.waiting_clients.insert(me, shuttle::thread::current());
      }
      shuttle::thread::park();
    }
  }
  {
    let mut n = net.lock().unwrap();
    n.clients_active -= 1;
  }
  wake_workers(&net);
}

// ------------------------------------------------------------------------------------------------
// one run
// ------------------------------------------------------------------------------------------------

struct Shared {
  violation: Mutex<Option<Violation>>,
  counters: Mutex<Counters>,
  log: Mutex<Vec<String>>,
  keys: Mutex<Vec<u64>>,
}

fn restart_dir(s: &Setup, files: &[Value], serial: u64, counters: &mut Counters) -> (std::path::PathBuf, Vec<Elem>) {
  let dir = scratch_dir().join(format!("c18-{}-{}", std::process::id(), serial));
  let _ = std::fs::remove_dir_all(&dir);
  let _ = std::fs::create_dir_all(&dir);
  let mut loadable = vec![];
  for (n, f) in files.iter().enumerate() {
    let key = pstr(f, "m");
    let m = match by_key(&s.models, key) {
      Some(m) => m,
      None => continue,
    };
    let mut bytes = m.xml.clone().into_bytes();
    let mut ok = *s.facts.parses.get(key).unwrap_or(&false);
    match pstr(f, "fault") {
      "empty" => {
        bytes.clear();
        ok = false;
        counters.inc("fault.restart.empty_file");
      }
      "nonutf8" => {
        let at = (pu64(f, "at") as usize) % bytes.len().max(1);
        bytes[at] = 0xff;
        ok = false;
        counters.inc("fault.restart.non_utf8_file");
      }
      "garbage" => {
        bytes = b"<definitions".to_vec();
        ok = false;
        counters.inc("fault.restart.garbage_file");
      }
      _ => {}
    }
    let _ = std::fs::write(dir.join(format!("{}_{}.dmn", n, key)), &bytes);
    if ok {
      if let Some(e) = elem_of(s, key) {
        loadable.push(e);
      }
    }
  }
  (dir, loadable)
}

/// All states the directory load may produce (every order of adding the loadable files), deployed.
fn restart_states(s: &Setup, loadable: &[Elem]) -> BTreeSet<SpecState> {
  fn permute(items: &mut Vec<usize>, k: usize, f: &mut dyn FnMut(&[usize])) {
    if k == items.len() {
      f(items);
      return;
    }
    for i in k..items.len() {
      items.swap(k, i);
      permute(items, k + 1, f);
      items.swap(k, i);
    }
  }
  let mut out = BTreeSet::new();
  let mut perm: Vec<usize> = (0..loadable.len()).collect();
  permute(&mut perm, 0, &mut |p: &[usize]| {
    let mut st: Vec<Elem> = vec![];
    for i in p {
      let e = &loadable[*i];
      if !st.iter().any(|x| x.ns == e.ns || x.name == e.name) {
        st.push(e.clone());
      }
    }
    let mut dep = BTreeMap::new();
    for e in &st {
      if *s.facts.builds.get(&e.key).unwrap_or(&false) {
        dep.insert(e.name.clone(), e.key.clone());
      }
    }
    out.insert(SpecState::from_elems(&st, dep));
  });
  out
}

fn first_unexplained(s: &Setup, initial: &BTreeSet<SpecState>, hist: &[HistOp]) -> String {
  // sequential replay in return order: which answer is the first the specification cannot explain
  let mut order: Vec<&HistOp> = hist.iter().collect();
  order.sort_by_key(|h| h.ret);
  let mut states: BTreeSet<SpecState> = initial.clone();
  for h in order {
    let mut next = BTreeSet::new();
    for st in &states {
      for n in spec_step(s, st, &h.op, &h.resp) {
        next.insert(n);
      }
    }
    if next.is_empty() {
      let r = match &h.resp {
        RespClass::Data(_) => "answered-data",
        RespClass::Errors => "answered-errors",
      };
      return format!("{}:{}", h.op.kind(), r);
    }
    states = next;
  }
  "only-under-reordering".to_string()
}

impl C18 {
  fn exec_inner(&self, plan: &Value, mode: &ExecMode) -> Outcome {
    let s = setup();
    let mut out = Outcome::default();
    simrt::install();
    let kind = Kind::from_json(plan.get("sched").unwrap_or(&Value::Null));
    let plan_seed = pu64(plan.get("sched").unwrap_or(&Value::Null), "seed");
    let shared = Arc::new(Shared {
      violation: Mutex::new(None),
      counters: Mutex::new(Counters::default()),
      log: Mutex::new(vec![]),
      keys: Mutex::new(vec![]),
    });
    let plan_arc = Arc::new(plan.clone());
    let sh = Arc::clone(&shared);
    simrt::reset_points(PointFaults::default());
    dmntk_verif_sync::reset_stats();
    simrt::clock_reset_reads();
    simrt::trace_begin();
    let report = simrt::run_scheduled(&kind, plan_seed, mode, 3_000_000, move || {
      let plan = &*plan_arc;
      let mut counters = Counters::default();
      let mut spec_states: BTreeSet<SpecState> = BTreeSet::new();
      spec_states.insert(SpecState { stored: vec![], deployed: BTreeMap::new() });
      let mut data = VerifAppData::new(Workspace::new(None));
      let mut event_base = 0u64;
      let fail = |v: Violation, log: Vec<String>, counters: Counters| {
        *sh.violation.lock().unwrap() = Some(v);
        sh.log.lock().unwrap().extend(log);
        sh.counters.lock().unwrap().merge(&counters);
      };
      for (pi, phase) in parr(plan, "phases").iter().enumerate() {
        // clock
        let clock = &phase["clock"];
        simrt::clock_set(pi64(clock, "days"), pi64(clock, "tick"));
        if pi64(clock, "tick") != 0 {
          counters.inc("fault.clock_ticks_on_every_read");
        }
        // restart: only what is in the directory survives
        if let Some(r) = phase.get("restart").filter(|r| !r.is_null()) {
          let (dir, loadable) = restart_dir(s, parr(r, "files"), pi as u64, &mut counters);
          drop(data);
          data = VerifAppData::new(Workspace::new(Some(dir.clone())));
          let _ = std::fs::remove_dir_all(&dir);
          counters.inc("restart");
          spec_states = restart_states(s, &loadable);
          if let Some(sn) = data.snapshot() {
            let before = spec_states.len();
            spec_states.retain(|st| st.stored.iter().map(|(a, b, _)| (a.clone(), b.clone())).collect::<Vec<_>>() == sn.definitions && st.deployed.keys().cloned().collect::<BTreeSet<_>>() == sn.evaluators);
            if spec_states.is_empty() {
              fail(
                viol("restart-state", "no-load-order-explains-state", event_base, format!("one of {} states the directory can produce", before), format!("{:?} evaluators {:?}", sn.definitions, sn.evaluators)),
                vec![format!("phase {} restart", pi)],
                counters.clone(),
              );
              return;
            }
          }
        }
        // soak: the service has answered many read-only requests before the phase's clients start, so
        // that whatever happens every N-th request happens while they are served
        let warm = pu64(phase, "warmup");
        if warm > 0 {
          if let Some(mut app) = build_app(&data) {
            counters.inc("mode.soak");
            counters.add("soak.warmup_requests", warm);
            for i in 0..warm {
              let key = crate::models::ALPHA_KEYS[(i / 3) as usize % crate::models::ALPHA_KEYS.len()];
              let spec = match i % 3 {
                0 => json!({"kind": "eval", "m": key}),
                1 => json!({"kind": "echo", "m": key, "tck": i % 2 == 1, "dec": "s", "s": format!("w\"{}", i), "n": "1", "b": true, "nums": ""}),
                _ => json!({"kind": "info"}),
              };
              let built = build_request(s, &spec);
              let state = Rc::new(RefCell::new(BodyState::default()));
              {
                let mut st = state.borrow_mut();
                if !built.body.is_empty() {
                  st.chunks.push_back(built.body.clone());
                }
                st.eof = true;
              }
              let req = make_request(built.method, &built.path, built.content_type, Some(built.body.len()), Rc::clone(&state));
              let mut call = app.start(req);
              let mut answer = None;
              for _ in 0..10_000 {
                match poll_call(&mut call) {
                  PollResult::Pending => continue,
                  PollResult::Ready(resp) => {
                    answer = Some(Ok(resp));
                    break;
                  }
                  PollResult::Panicked(rec) => {
                    answer = Some(Err(rec));
                    break;
                  }
                }
              }
              dmntk_verif_sync::flush();
              let verdict = match answer {
                Some(Ok(resp)) => classify_response(&built.op, &built.label, &resp, event_base).map(|_| ()),
                Some(Err(rec)) => Err(viol("no-response", &format!("soak:{}:{}", built.op.kind(), panic_site(&rec)), event_base, format!("warm-up request {} `{}` is answered", i, built.label), rec)),
                None => Err(viol("no-response", &format!("soak:{}:never-ready", built.op.kind()), event_base, format!("warm-up request {} `{}` is answered", i, built.label), "the handler stayed pending".into())),
              };
              if let Err(v) = verdict {
                fail(v, vec![format!("phase {} warm-up request {} of {}", pi, i, warm)], counters.clone());
                return;
              }
            }
          }
        }
        let n_workers = (pu64(phase, "workers") as usize).clamp(1, 4);
        let clients: Vec<Vec<Value>> = parr(phase, "clients").iter().map(|c| c.as_array().cloned().unwrap_or_default()).collect();
        let net = Arc::new(Mutex::new(Net {
          conns: vec![],
          seq: event_base,
          clients_active: clients.len(),
          waiting_clients: BTreeMap::new(),
          waiting_workers: BTreeMap::new(),
          completed: BTreeSet::new(),
          history: vec![],
          violations: vec![],
          log: vec![],
          counters: Counters::default(),
        }));
        let mut handles = vec![];
        for wi in 0..n_workers {
          let ctx = WorkerCtx { me: wi, net: Arc::clone(&net), data: data.clone() };
          handles.push(shuttle::thread::spawn(move || worker_main(ctx, s)));
        }
        for (ci, reqs) in clients.into_iter().enumerate() {
          let net = Arc::clone(&net);
          handles.push(shuttle::thread::spawn(move || client_main(ci, reqs, net)));
        }
        for h in handles {
          let _ = h.join();
        }
        let mut net = net.lock().unwrap();
        event_base = net.seq + 1;
        counters.merge(&net.counters);
        counters.add("requests.answered", net.history.len() as u64);
        for h in &net.history {
          counters.inc(&format!("request.{}", h.op.kind()));
        }
        let log = std::mem::take(&mut net.log);
        if let Some(v) = net.violations.first().cloned() {
          fail(v, log, counters.clone());
          return;
        }
        // overlap statistics
        let hist = net.history.clone();
        let mut overlapping = 0;
        for a in 0..hist.len() {
          for b in (a + 1)..hist.len() {
            if hist[a].invoke < hist[b].ret && hist[b].invoke < hist[a].ret {
              overlapping += 1;
              let (ka, kb) = (hist[a].op.kind(), hist[b].op.kind());
              if (ka == "deploy" && kb.contains("evaluate")) || (kb == "deploy" && ka.contains("evaluate")) || (ka == "deploy" && kb.contains("echo")) || (kb == "deploy" && ka.contains("echo")) {
                counters.inc("probe.evaluate_overlapped_deploy");
              }
              if ka == "add" && kb == "add" && hist[a].conn != hist[b].conn {
                counters.inc("probe.two_adds_overlapped");
              }
            }
          }
        }
        counters.add("overlapping_request_pairs", overlapping);
        // R3: linearizability against the relational specification
        if hist.len() <= 40 {
          let mut budget = 400_000u64;
          match linearize(s, &spec_states, &hist, &mut budget) {
            None => {
              counters.inc("inconclusive.linearizability_budget_exhausted");
              // carry on from the sequential replay in return order (sound only as an approximation): stop the run here
              sh.log.lock().unwrap().extend(log);
              sh.counters.lock().unwrap().merge(&counters);
              return;
            }
            Some(finals) => {
              counters.inc("linearizability.checks");
              counters.max("max.linearizability_history_length", hist.len() as u64);
              if finals.is_empty() {
                let site = first_unexplained(s, &spec_states, &hist);
                let mut text = vec![];
                let mut order: Vec<&HistOp> = hist.iter().collect();
                order.sort_by_key(|h| h.invoke);
                for h in order {
                  text.push(format!("[{}..{}] {} -> {}", h.invoke, h.ret, h.label, match &h.resp { RespClass::Data(d) => format!("data {}", describe(d)), RespClass::Errors => "errors".to_string() }));
                }
                fail(
                  viol("not-linearizable", &site, event_base, "the answers are those of the same requests applied one at a time, in an order respecting real time, to a workspace (replace substitutes the stored model of the same namespace and name)".into(), text.join(" | ")),
                  log,
                  counters.clone(),
                );
                return;
              }
              // quiescent point: the real state is one of the specification's final states
              match data.snapshot() {
                Some(sn) => {
                  if let Err((site, text)) = check_invariants(&sn) {
                    fail(viol("index-invariant", &site, event_base, "list and indexes describe the same set".into(), text), log, counters.clone());
                    return;
                  }
                  let matching: BTreeSet<SpecState> = finals
                    .iter()
                    .filter(|st| st.stored.iter().map(|(a, b, _)| (a.clone(), b.clone())).collect::<Vec<_>>() == sn.definitions && st.deployed.keys().cloned().collect::<BTreeSet<_>>() == sn.evaluators)
                    .cloned()
                    .collect();
                  if matching.is_empty() {
                    fail(
                      viol(
                        "state-differs-from-specification",
                        "at-quiescence",
                        event_base,
                        format!("one of the final states of the linearizations: {:?}", finals.iter().take(4).collect::<Vec<_>>()),
                        format!("stored {:?} evaluators {:?}", sn.definitions, sn.evaluators),
                      ),
                      log,
                      counters.clone(),
                    );
                    return;
                  }
                  spec_states = matching;
                }
                None => {
                  fail(viol("lock-poisoned", "at-quiescence", event_base, "the workspace lock is not poisoned".into(), "read() fails".into()), log, counters.clone());
                  return;
                }
              }
            }
          }
        }
        {
          let mut h = Hasher::default();
          for op in &hist {
            h.str(&op.label);
            h.u64(op.invoke);
            h.u64(op.ret);
          }
          if overlapping > 0 {
            sh.keys.lock().unwrap().push(h.finish());
          }
        }
        sh.log.lock().unwrap().extend(log);
      }
      // R4: fault-free epilogue served by a fresh worker application
      simrt::clock_set(18_628, 0); // 2021-01-01
      let mut app = match build_app(&data) {
        Some(a) => a,
        None => return,
      };
      let steps: Vec<Value> = vec![
        json!({"kind": "clear"}),
        json!({"kind": "add", "m": "A1"}),
        json!({"kind": "deploy"}),
        json!({"kind": "eval", "m": "A1"}),
        json!({"kind": "echo", "m": "A1", "tck": false, "dec": "s", "s": "epilogue"}),
      ];
      let mut st: BTreeSet<SpecState> = BTreeSet::new();
      st.insert(SpecState { stored: vec![], deployed: BTreeMap::new() });
      for (i, r) in steps.iter().enumerate() {
        let built = build_request(s, r);
        let body = Rc::new(RefCell::new(BodyState::default()));
        body.borrow_mut().chunks.push_back(built.body.clone());
        body.borrow_mut().eof = true;
        let req = make_request(built.method, &built.path, built.content_type, Some(built.body.len()), body);
        let mut call = app.start(req);
        let mut result = None;
        for _ in 0..16 {
          match poll_call(&mut call) {
            PollResult::Pending => continue,
            other => {
              result = Some(other);
              break;
            }
          }
        }
        dmntk_verif_sync::flush();
        let seq = event_base + i as u64;
        let v = match result {
          Some(PollResult::Ready(resp)) => match classify_response(&built.op, &built.label, &resp, seq) {
            Ok(class) => {
              let mut next = BTreeSet::new();
              for x in &st {
                for n in spec_step(s, x, &built.op, &class) {
                  next.insert(n);
                }
              }
              if i == 0 {
                // whatever was stored before, clear leaves nothing
                next.insert(SpecState { stored: vec![], deployed: BTreeMap::new() });
              }
              if next.is_empty() {
                Some(viol("epilogue", &format!("{}-not-served-as-specified", built.op.kind()), seq, format!("after the last fault `{}` is answered as on a fresh service", built.label), String::from_utf8_lossy(&resp.body).chars().take(200).collect()))
              } else {
                st = next;
                None
              }
            }
            Err(v) => Some(v),
          },
          Some(PollResult::Panicked(rec)) => Some(viol("epilogue", &format!("panic:{}", panic_site(&rec)), seq, format!("`{}` is answered", built.label), rec)),
          _ => Some(viol("epilogue", "never-completes", seq, format!("`{}` is answered", built.label), "pending".into())),
        };
        if let Some(v) = v {
          fail(v, vec![format!("epilogue step {}", i)], counters.clone());
          return;
        }
      }
      if data.is_poisoned() {
        fail(viol("lock-poisoned", "after-epilogue", event_base + 10, "the workspace lock is not poisoned".into(), "poisoned".into()), vec![], counters.clone());
        return;
      }
      counters.inc("epilogue.served");
      sh.counters.lock().unwrap().merge(&counters);
    });
    let (trace_hash, trace_events, _) = simrt::trace_end();
    let stats = dmntk_verif_sync::stats();
    out.counters = shared.counters.lock().unwrap().clone();
    out.counters.inc("runs");
    out.counters.add("scheduler.steps", report.recording.steps.len() as u64);
    out.counters.add("scheduler.context_switches", report.switches);
    out.counters.add("lock.reads", stats.reads);
    out.counters.add("lock.writes", stats.writes);
    out.counters.add("lock.blocked", stats.blocked);
    out.counters.add("trace.events", trace_events);
    out.counters.add("clock.reads", simrt::clock_reads());
    out.log_tail = shared.log.lock().unwrap().iter().rev().take(60).rev().cloned().collect();
    out.distinct_keys = shared.keys.lock().unwrap().clone();
    let violation = shared.violation.lock().unwrap().clone();
    out.log_hash = {
      let mut h = Hasher::default();
      h.u64(trace_hash);
      for l in shared.log.lock().unwrap().iter() {
        h.str(l);
      }
      h.str(&format!("{:?}", violation.as_ref().map(|v| &v.signature)));
      h.finish()
    };
    out.schedule = Some(report.schedule_json(&kind, simrt::scheduler_seed(plan_seed, mode)));
    if report.diverged {
      out.harness_error = Some("replay diverged: a recorded task was not runnable (a source of nondeterminism is not behind a seam)".to_string());
      return out;
    }
    if let Some(v) = violation {
      out.violation = Some(v);
      return out;
    }
    match &report.failure {
      Some(SchedFailure::Deadlock(msg)) => {
        out.violation = Some(viol("deadlock", "all-tasks-blocked", report.recording.steps.len() as u64, "no request stops the service from answering the requests that follow".into(), msg.chars().take(300).collect()));
      }
      Some(SchedFailure::StepBound) => {
        out.counters.inc("inconclusive.step_bound");
        if kind == Kind::Random {
          out.violation = Some(viol("no-progress", "step-bound-exhausted", 3_000_000, "all requests are served within the step bound".into(), "bound exhausted under the fair scheduler".into()));
        }
      }
      Some(SchedFailure::Panic(msg)) => {
        if msg.contains("dmnsim harness") {
          out.harness_error = Some(msg.clone());
        } else {
          out.violation = Some(viol("escaped-panic", &panic_site(msg), 0, "no panic escapes a simulated worker".into(), msg.chars().take(300).collect()));
        }
      }
      None => {}
    }
    out
  }
}


// ------------------------------------------------------------------------------------------------
// loopback conformance pass: the REAL start_server over a real TCP connection, sequentially.
// Not simulation (no schedule, no fault is decided here): it closes the blind spot of hook H2, which
// repeats the service list of start_server instead of running it.
// ------------------------------------------------------------------------------------------------

fn http_over_tcp(port: u16, b: &Built) -> Result<Resp, String> {
  use std::io::{Read, Write};
  let mut stream = std::net::TcpStream::connect(("127.0.0.1", port)).map_err(|e| format!("connect: {}", e))?;
  let _ = stream.set_read_timeout(Some(std::time::Duration::from_secs(90)));
  let _ = stream.set_write_timeout(Some(std::time::Duration::from_secs(90)));
  let mut head = format!("{} {} HTTP/1.1\r\nHost: 127.0.0.1\r\nConnection: close\r\nContent-Length: {}\r\n", b.method, b.path, b.body.len());
  if let Some(ct) = b.content_type {
    head.push_str(&format!("Content-Type: {}\r\n", ct));
  }
  head.push_str("\r\n");
  stream.write_all(head.as_bytes()).map_err(|e| format!("write: {}", e))?;
  // a server that answers 4xx before the whole (oversize) body is sent may reset the connection
  let _ = stream.write_all(&b.body);
  let mut raw = vec![];
  let _ = stream.read_to_end(&mut raw);
  let split = raw.windows(4).position(|w| w == b"\r\n\r\n").ok_or_else(|| format!("no header end in {} bytes", raw.len()))?;
  let head_text = String::from_utf8_lossy(&raw[..split]).to_string();
  let mut body = raw[split + 4..].to_vec();
  let status: u16 = head_text.split_whitespace().nth(1).and_then(|s| s.parse().ok()).ok_or("no status")?;
  let mut content_type = String::new();
  let mut chunked = false;
  for line in head_text.lines().skip(1) {
    let lower = line.to_ascii_lowercase();
    if let Some(v) = lower.strip_prefix("content-type:") {
      content_type = v.trim().to_string();
    }
    if lower.starts_with("transfer-encoding:") && lower.contains("chunked") {
      chunked = true;
    }
  }
  if chunked {
    let mut out = vec![];
    let mut i = 0;
    loop {
      let end = match body[i..].windows(2).position(|w| w == b"\r\n") {
        Some(e) => i + e,
        None => break,
      };
      let size = usize::from_str_radix(String::from_utf8_lossy(&body[i..end]).trim(), 16).unwrap_or(0);
      if size == 0 {
        break;
      }
      let start = end + 2;
      if start + size > body.len() {
        break;
      }
      out.extend_from_slice(&body[start..start + size]);
      i = start + size + 2;
    }
    body = out;
  }
  Ok(Resp { status, content_type, body })
}

fn loopback_script(seed: u64) -> Vec<Value> {
  let mut script: Vec<Value> = vec![
    json!({"kind": "info"}),
    json!({"kind": "clear"}),
    json!({"kind": "add", "m": "A1"}),
    json!({"kind": "add", "m": "A1"}),
    json!({"kind": "add", "m": "D"}),
    json!({"kind": "add", "m": "B"}),
    json!({"kind": "add", "m": "F"}),
    json!({"kind": "eval", "m": "A1"}),
    json!({"kind": "deploy"}),
    json!({"kind": "eval", "m": "A1"}),
    json!({"kind": "eval", "m": "F"}),
    json!({"kind": "tod", "m": "B"}),
    json!({"kind": "echo", "m": "A1", "tck": false, "dec": "s", "s": "quote \" backslash \\ tab \t newline \n bell \u{7} e-acute \u{e9} emoji \u{1F600}"}),
    json!({"kind": "echo", "m": "A1", "tck": true, "dec": "s", "s": "quote \" backslash \\ tab \t newline \n bell \u{7} e-acute \u{e9} emoji \u{1F600}"}),
    json!({"kind": "echo", "m": "A1", "tck": false, "dec": "mix", "s": "k\"v", "n": "-0.00000001234", "b": true}),
    json!({"kind": "echo", "m": "B", "tck": true, "dec": "mix", "s": "", "n": "12345678901234567890.5", "b": false}),
    json!({"kind": "echo", "m": "B", "tck": true, "dec": "dt", "tv": "2021-03-28T10:20:30Z"}),
    json!({"kind": "echo", "m": "B", "tck": false, "dec": "dd", "tv": "P1DT2H3M4S"}),
    json!({"kind": "echo", "m": "A1", "tck": false, "dec": "snull"}),
    json!({"kind": "replace", "m": "A2"}),
    json!({"kind": "eval", "m": "A2"}),
    json!({"kind": "deploy"}),
    json!({"kind": "eval", "m": "A2"}),
    json!({"kind": "remove", "ns": "B", "name": "B"}),
    json!({"kind": "add", "m": "B2"}),
    json!({"kind": "deploy"}),
    json!({"kind": "eval", "m": "B2"}),
  ];
  for (i, what) in MALFORMED.iter().enumerate() {
    script.push(json!({"kind": "mal", "what": what, "m": "A2", "n": i}));
  }
  script.push(json!({"kind": "eval", "m": "A2"}));
  // two seeded sequential scripts
  let mut rng = Rng::new(derive(seed, "C18-loopback", 0));
  for _ in 0..60 {
    let m = *rng.pick(&ALPHA_KEYS);
    let r = match rng.index(10) {
      0 => json!({"kind": "add", "m": m}),
      1 => json!({"kind": "replace", "m": m}),
      2 => json!({"kind": "remove", "ns": m, "name": rng.pick(&ALPHA_KEYS)}),
      3 => json!({"kind": "deploy"}),
      4 => json!({"kind": "clear"}),
      5 | 6 => json!({"kind": "eval", "m": m}),
      7 => json!({"kind": "mal", "what": rng.pick(&MALFORMED), "m": m, "n": rng.below(80), "g": rng.below(1 << 40)}),
      _ => gen_echo(&mut rng, m.to_string()),
    };
    script.push(r);
  }
  // one oversize body on each kind of extractor
  script.push(json!({"kind": "add", "m": "H", "net": {"oversize": true}}));
  script.push(json!({"kind": "eval", "m": "A2", "net": {"oversize": true}}));
  script.push(json!({"kind": "info"}));
  // the real server has no probe that ends a runaway recursion: those two bodies (the open known finding)
  // would overflow the stack of a worker and end the server process and with it this pass
  for r in script.iter_mut() {
    if pstr(r, "what") == "eval_odd_builtin_arguments" && (2..4).contains(&(pu64(r, "n") as usize % ODD_CONTEXTS.len())) {
      r["n"] = json!(pu64(r, "n") + 2);
    }
  }
  script
}

pub fn loopback_pass(seed: u64) -> ExtraPass {
  let s = setup();
  let mut pass = ExtraPass { name: "loopback-conformance".to_string(), ..Default::default() };
  // a free port
  let port = match std::net::TcpListener::bind(("127.0.0.1", 0)).and_then(|l| l.local_addr()) {
    Ok(a) => a.port(),
    Err(e) => {
      pass.note = format!("skipped: no loopback port can be bound ({})", e);
      return pass;
    }
  };
  let exe = std::env::current_exe().expect("current_exe");
  let mut child = match std::process::Command::new(exe).args(["serve", &port.to_string()]).env("TZ", "UTC0").stdin(std::process::Stdio::null()).stdout(std::process::Stdio::null()).stderr(std::process::Stdio::null()).spawn() {
    Ok(c) => c,
    Err(e) => {
      pass.note = format!("skipped: the service process cannot be started ({})", e);
      return pass;
    }
  };
  let info = build_request(s, &json!({"kind": "info"}));
  let started = std::time::Instant::now();
  let mut up = false;
  while started.elapsed() < std::time::Duration::from_secs(30) {
    if http_over_tcp(port, &info).map(|r| r.status == 200).unwrap_or(false) {
      up = true;
      break;
    }
    std::thread::sleep(std::time::Duration::from_millis(50));
  }
  if !up {
    let _ = child.kill();
    let _ = child.wait();
    pass.note = "skipped: the service did not answer /system/info within 30 s".to_string();
    return pass;
  }
  let mut states: BTreeSet<SpecState> = BTreeSet::new();
  states.insert(SpecState { stored: vec![], deployed: BTreeMap::new() });
  let script = loopback_script(seed);
  for (i, r) in script.iter().enumerate() {
    let mut built = build_request(s, r);
    if pbool(&r["net"], "oversize") {
      let limit = if built.content_type.map(|c| c.to_ascii_lowercase().starts_with("application/json")).unwrap_or(false) { 4 * 1024 * 1024 } else { 256 * 1024 };
      built.body.resize(limit + 1024, b' ');
      built.op = Op::Malformed(true);
      built.label = format!("{} [oversize]", built.label);
    }
    pass.counters.inc("requests");
    pass.counters.inc(&format!("request.{}", built.op.kind()));
    let resp = match http_over_tcp(port, &built) {
      Ok(r) => r,
      Err(e) => {
        if pbool(&r["net"], "oversize") {
          // the server may close the connection on an oversize body before an answer can be read
          pass.counters.inc("oversize_connection_closed_without_readable_answer");
          continue;
        }
        let v = viol("no-response", &format!("loopback:{}", built.op.kind()), i as u64, format!("`{}` is answered over TCP", built.label), e);
        pass.violations.push((json!({"property": "C18", "pass": "loopback-conformance", "step": i, "request": r, "script": script}), v));
        break;
      }
    };
    if resp.content_type.starts_with("application/json") {
      pass.counters.inc("response.content_type.json");
    } else {
      pass.counters.inc("response.content_type.other");
    }
    let verdict = classify_response(&built.op, &built.label, &resp, i as u64).and_then(|class| {
      let mut next = BTreeSet::new();
      for st in &states {
        for n in spec_step(s, st, &built.op, &class) {
          next.insert(n);
        }
      }
      if next.is_empty() {
        Err(viol(
          "loopback-differs-from-specification",
          &format!("{}:{}", built.op.kind(), match class { RespClass::Data(_) => "answered-data", RespClass::Errors => "answered-errors" }),
          i as u64,
          format!("step {} `{}` of the sequential script is answered as the workspace specification says", i, built.label),
          String::from_utf8_lossy(&resp.body).chars().take(300).collect(),
        ))
      } else {
        states = next;
        Ok(())
      }
    });
    if let Err(v) = verdict {
      pass.violations.push((json!({"property": "C18", "pass": "loopback-conformance", "step": i, "request": r, "script": script}), v));
      break;
    }
  }
  let _ = child.kill();
  let _ = child.wait();
  pass.note = format!("real start_server on 127.0.0.1:{}, {} sequential requests over TCP; not simulation, not counted in evaluations", port, pass.counters.get("requests"));
  pass
}

/// The literal expression of decision `many` of the alphabet models (models.rs): a list of 150 contexts.
pub const MANY_EXPRESSION: &str = "for i in 1..150 return {\"k\": i, \"v\": [s, n * i, {\"w\": b, \"e\": {}, \"l\": []}]}";

/// The literal expression of decision `odd_keys` of the alphabet models (models.rs).
const ODD_KEYS_EXPRESSION: &str = "{\"\": s, \"a\\\"b\": s, \"1\": [[s], [], [[n, [b]]]], \"x\ty\": {\"\": []}, \"\\\\\": null, \"\u{e9}\u{4e2d}\": b, \"k\\u0001\": n, \"e\": {}, \"le\": [{}, [], {\"\": {}}]}";

/// The value of a FEEL expression over the given inputs as the code under test evaluates it, converted
/// to the simulator's abstract values. `None` when it cannot be parsed or holds kinds the echo oracle
/// does not compare (temporal values, functions, ranges).
fn evaluated_directly(expression: &str, inputs: &[(&str, &Val)]) -> Option<Val> {
  use dmntk_feel::values::Value as F;
  fn convert(v: &F) -> Option<Val> {
    Some(match v {
      F::Null(_) => Val::Null,
      F::Boolean(b) => Val::Bool(*b),
      F::Number(n) => Val::Num(n.to_string()),
      F::String(s) => Val::Str(s.clone()),
      F::List(items) => Val::List(items.as_vec().iter().map(convert).collect::<Option<Vec<_>>>()?),
      F::Context(c) => Val::Ctx(c.get_entries().into_iter().map(|(k, v)| convert(v).map(|x| (k.to_string(), x))).collect::<Option<Vec<_>>>()?),
      _ => return None,
    })
  }
  let bindings: Vec<String> = inputs.iter().map(|(k, v)| format!("{}: {}", k, v.to_feel())).collect();
  let text = format!("{{{}{}result of the decision: {}}}", bindings.join(", "), if bindings.is_empty() { "" } else { ", " }, expression);
  let ctx = std::panic::catch_unwind(|| dmntk_feel_evaluator::evaluate_context(&dmntk_feel::Scope::default(), &text)).ok()?.ok()?;
  let name: dmntk_feel::Name = "result of the decision".into();
  let value = ctx.get_entry(&name)?;
  // an infinite or NaN number has no decimal text: leave such results to the well-formedness rule alone
  let v = convert(value)?;
  fn finite(v: &Val) -> bool {
    match v {
      Val::Num(n) => crate::jsonval::canonical_decimal(n).is_some(),
      Val::List(items) => items.iter().all(finite),
      Val::Ctx(entries) => entries.iter().all(|(_, x)| finite(x)),
      _ => true,
    }
  }
  if finite(&v) {
    Some(v)
  } else {
    None
  }
}

/// Rewrites the simple values of a TCK input in place: flavour bit 0 - numbers that are integers are
/// tagged `xsd:integer`, bit 1 - the other numbers `xsd:double`, bit 2 - booleans are spelt 1 / 0, bit 3 - a nil
/// leaf also carries a type and a text (the image of `<value xsi:type="xsd:decimal" xsi:nil="true"/>`): it is
/// nil all the same.
fn tck_flavour(v: &mut Value, flavour: u64) {
  if flavour == 0 {
    return;
  }
  match v {
    Value::Array(items) => items.iter_mut().for_each(|i| tck_flavour(i, flavour)),
    Value::Object(map) => {
      if flavour & 8 != 0 && map.get("isNil") == Some(&json!(true)) && !map.contains_key("type") && !map.contains_key("items") {
        let (ty, text) = [("xsd:decimal", ""), ("xsd:string", ""), ("xsd:decimal", "12"), ("xsd:boolean", "true"), ("xsd:date", "")][(flavour as usize / 16) % 5];
        map.insert("type".into(), json!(ty));
        map.insert("text".into(), json!(text));
        return;
      }
      let ty = map.get("type").and_then(|t| t.as_str()).map(|t| t.to_string());
      let text = map.get("text").and_then(|t| t.as_str()).map(|t| t.to_string());
      if let (Some(ty), Some(text)) = (ty, text) {
        if ty == "xsd:decimal" {
          let integer = text.trim_start_matches('-').bytes().all(|b| b.is_ascii_digit());
          if integer && flavour & 1 != 0 {
            map.insert("type".into(), json!("xsd:integer"));
          } else if !integer && flavour & 2 != 0 {
            map.insert("type".into(), json!("xsd:double"));
          }
        } else if ty == "xsd:boolean" && flavour & 4 != 0 {
          map.insert("text".into(), json!(if text == "true" { "1" } else { "0" }));
        }
        return;
      }
      map.values_mut().for_each(|i| tck_flavour(i, flavour));
    }
    _ => {}
  }
}

const TEMPORALS: [(&str, &[&str]); 5] = [
  ("d", &["2021-03-28", "1999-12-31", "2020-02-29", "1970-01-01"]),
  ("t", &["10:20:30", "23:59:59", "00:00:00", "10:20:30Z", "10:20:30+02:00", "10:20:30.5"]),
  ("dt", &["2021-03-28T02:30:00", "2021-03-28T10:20:30Z", "2021-10-31T02:30:00+02:00", "2020-02-29T23:59:59"]),
  ("dd", &["P1D", "PT2H", "P1DT2H3M4S", "-PT5M", "PT0.5S"]),
  ("ym", &["P1Y", "P2M", "P1Y2M", "-P3Y"]),
];

fn gen_echo(rng: &mut Rng, m: String) -> Value {
  let tck = rng.chance(2, 5);
  let dec = match rng.index(17) {
    0..=3 => "s",
    4..=5 => "n",
    6 => "b",
    7 => "snull",
    8 => {
      if rng.chance(1, 4) {
        "many"
      } else {
        "mix"
      }
    }
    9 => "keys",
    12 => "l",
    13 | 14 => "p",
    15 => "lnil",
    16 => "pnil",
    _ => {
      if rng.chance(1, 3) {
        let (dec, texts) = rng.pick(&TEMPORALS);
        return json!({"kind": "echo", "m": m, "tck": tck, "dec": dec, "tv": rng.pick(texts)});
      }
      let (dec, text) = crate::jsonval::gen_temporal(rng);
      return json!({"kind": "echo", "m": m, "tck": tck, "dec": dec, "tv": text});
    }
  };
  if dec == "n" && rng.chance(1, 3) {
    // a number rounded by the decision to a scale between millionths and millions: results with a
    // positive exponent (also of a zero) have to be rendered as numbers too
    let digits = 1 + rng.index(18);
    let mut n: String = (0..digits).map(|i| char::from(b'0' + if i == 0 { 1 + rng.index(9) } else { rng.index(10) } as u8)).collect();
    if rng.chance(1, 6) {
      n = "0".to_string();
    }
    if n.len() > 1 && rng.chance(1, 2) {
      let cut = 1 + rng.index(n.len() - 1);
      n = format!("{}.{}", &n[..cut], &n[cut..]);
    }
    if n != "0" && rng.chance(1, 3) {
      n = format!("-{}", n);
    }
    let sc = rng.index(13) as i64 - 6;
    return json!({"kind": "echo", "m": m, "tck": tck, "dec": "scale", "n": n, "sc": sc});
  }
  let n_nums = rng.index(4);
  // scientific notation is XML Schema's, not FEEL's: only in TCK inputs
  let number = |rng: &mut Rng| if tck { crate::jsonval::gen_number_exp(rng) } else { crate::jsonval::gen_number(rng) };
  let nums: Vec<String> = (0..n_nums).map(|_| number(rng)).collect();
  let n = number(rng);
  let fl = if tck && rng.chance(1, 3) { 1 + rng.below(127) } else { 0 };
  json!({"kind": "echo", "m": m, "tck": tck, "dec": dec, "s": crate::jsonval::gen_string(rng), "n": n, "b": rng.chance(1, 2), "nums": nums.join(","), "fl": fl})
}

const DEF_KINDS: [&str; 5] = ["add", "replace", "remove", "clear", "deploy"];

fn gen_net(rng: &mut Rng, faults: bool, mutating: bool, is_eval: bool) -> Value {
  if !faults {
    return json!({"segments": 1});
  }
  let mut n = json!({"segments": 1});
  if rng.chance(1, 3) {
    n["segments"] = json!(2 + rng.index(4));
    n["cut_seed"] = json!(rng.below(1 << 30));
    if rng.chance(1, 6) {
      n["reset_after"] = json!(rng.index(4));
    }
  }
  if rng.chance(1, 10) {
    n["dup"] = json!(true);
  }
  if rng.chance(1, 16) {
    n["drop"] = json!(true);
  }
  if rng.chance(1, 12) {
    n["drop_response"] = json!(true);
  }
  if rng.chance(1, 6) {
    n["hold"] = json!(1 + rng.index(6));
  }
  if rng.chance(1, 14) {
    // a cut strictly inside a JSON body can only make it invalid; evaluation bodies change no state whatever they become
    if mutating || is_eval {
      n["truncate"] = json!(rng.below(1 << 20));
    }
  }
  if is_eval && rng.chance(1, 14) {
    n["flip"] = json!(rng.below(1 << 20));
  }
  if rng.chance(1, 120) {
    n["oversize"] = json!(true);
  }
  n
}

/// Days since 1970-01-01 of dates around which zone offsets change, year ends, leap days.
const CLOCK_DATES: [(i32, u8, u8); 14] = [
  (2021, 3, 27),
  (2021, 3, 28),
  (2021, 3, 29),
  (2021, 10, 31),
  (2021, 3, 14),
  (2021, 11, 7),
  (2021, 4, 4),
  (2021, 10, 3),
  (2020, 2, 29),
  (2020, 12, 31),
  (2021, 1, 1),
  (2021, 6, 15),
  (1921, 6, 15),
  (2121, 6, 15),
];

impl Sim for C18 {
  fn id(&self) -> &'static str {
    "C18"
  }
  fn level(&self) -> &'static str {
    "exploration"
  }
  fn runs(&self, tier: Tier) -> u64 {
    match tier {
      Tier::Quick => 80_000,
      Tier::Thorough => 3_000_000,
    }
  }
  fn block(&self, tier: Tier) -> u64 {
    match tier {
      Tier::Quick => 200,
      Tier::Thorough => 500,
    }
  }
  fn watchdog_ms(&self) -> u64 {
    60_000
  }
  fn tz_of_block(&self, block: u64) -> &'static str {
    crate::TZS[(block % crate::TZS.len() as u64) as usize]
  }
  fn child_setup(&self) {
    let _ = setup();
    simrt::install();
    simrt::install_recursion_probe();
  }
  fn gen_plan(&self, seed: u64, run: u64, _tier: Tier) -> Value {
    let mut rng = Rng::new(derive(seed, "C18", run));
    // the first third of every batch runs with a perfect transport: only the scheduler is active
    let faults = run % 3 != 0;
    let models: Vec<&str> = rng.subset(&ALPHA_KEYS, 2);
    let n_phases = if rng.chance(1, 4) { 2 } else { 1 };
    // swarm: which request families this run uses
    let use_mal = rng.chance(1, 2);
    let use_echo = rng.chance(2, 3);
    let use_tod = rng.chance(1, 3);
    let use_defs: Vec<&str> = rng.subset(&DEF_KINDS, 2);
    let mut phases = vec![];
    for pi in 0..n_phases {
      let n_clients = 1 + rng.index(3);
      let n_workers = 1 + rng.index(3);
      let mut clients = vec![];
      // the generator tracks a rough guess of what is stored to aim evaluations at deployed models
      let mut guess: Vec<&str> = vec![];
      let mut deployed = false;
      for _ in 0..n_clients {
        let n_req = 2 + rng.index(7);
        let mut reqs = vec![];
        for _ in 0..n_req {
          let roll = rng.index(100);
          let target = |rng: &mut Rng, guess: &Vec<&str>| -> String {
            if !guess.is_empty() && rng.chance(4, 5) {
              rng.pick(guess).to_string()
            } else {
              rng.pick(&models).to_string()
            }
          };
          let mut r = if deployed && use_echo && roll < 30 {
            let t = target(&mut rng, &guess);
            gen_echo(&mut rng, t)
          } else if deployed && roll < 45 {
            json!({"kind": "eval", "m": target(&mut rng, &guess)})
          } else if deployed && use_tod && roll < 55 {
            json!({"kind": "tod", "m": target(&mut rng, &guess)})
          } else if use_mal && (50..65).contains(&roll) {
            json!({"kind": "mal", "what": rng.pick(&MALFORMED), "m": target(&mut rng, &guess), "n": rng.below(80), "g": rng.below(1 << 40)})
          } else if !guess.is_empty() && !deployed && roll < 62 {
            json!({"kind": "deploy"})
          } else if (80..82).contains(&roll) {
            json!({"kind": "info"})
          } else if faults && use_tod && (82..86).contains(&roll) {
            let d = rng.pick(&CLOCK_DATES);
            json!({"kind": "clock", "days": simrt::days_from_civil(d.0, d.1, d.2), "tick": if rng.chance(1, 5) { 1 } else { 0 }})
          } else {
            match *rng.pick(&use_defs) {
              "add" => json!({"kind": "add", "m": rng.pick(&models)}),
              "replace" => json!({"kind": "replace", "m": rng.pick(&models)}),
              "remove" => {
                let x = if !guess.is_empty() { *rng.pick(&guess) } else { *rng.pick(&models) };
                let y = if rng.chance(1, 2) { x } else { *rng.pick(&models) };
                json!({"kind": "remove", "ns": x, "name": y})
              }
              "clear" => json!({"kind": "clear"}),
              _ => json!({"kind": "deploy"}),
            }
          };
          match pstr(&r, "kind") {
            "add" | "replace" => {
              let k = ALPHA_KEYS.iter().find(|k| **k == pstr(&r, "m")).unwrap();
              if !guess.contains(k) {
                guess.push(k);
              }
              deployed = false;
            }
            "remove" | "clear" => {
              deployed = false;
              if pstr(&r, "kind") == "clear" {
                guess.clear();
              }
            }
            "deploy" => deployed = true,
            _ => {}
          }
          if pstr(&r, "kind") != "clock" {
            if rng.chance(1, 4) {
              r["variant"] = json!(1 + rng.index(3));
            }
            let k = pstr(&r, "kind").to_string();
            let mutating = matches!(k.as_str(), "add" | "replace" | "remove");
            let is_eval = matches!(k.as_str(), "eval" | "echo" | "tod");
            r["net"] = gen_net(&mut rng, faults, mutating, is_eval);
          }
          reqs.push(r);
        }
        clients.push(Value::Array(reqs));
      }
      let d = rng.pick(&CLOCK_DATES);
      let clock = json!({"days": simrt::days_from_civil(d.0, d.1, d.2), "tick": if faults && rng.chance(1, 10) { 1 } else { 0 }});
      let restart = if pi > 0 || rng.chance(1, 5) {
        let n = rng.index(4);
        let files: Vec<Value> = (0..n).map(|_| json!({"m": rng.pick(&models), "fault": if faults { *rng.pick(&["", "", "", "empty", "nonutf8", "garbage"]) } else { "" }, "at": rng.below(10_000)})).collect();
        json!({"files": files})
      } else {
        Value::Null
      };
      phases.push(json!({"clock": clock, "restart": restart, "workers": n_workers, "clients": clients}));
    }
    let kind = match rng.index(8) {
      0..=3 => json!({"kind": "random"}),
      4..=6 => json!({"kind": "pct", "depth": 1 + rng.index(4)}),
      _ => json!({"kind": "urw"}),
    };
    let mut sched = kind;
    sched["seed"] = json!(rng.next_u64() >> 1);
    if rng.chance(1, 30) && !phases.is_empty() {
      let pi = rng.index(phases.len());
      let threshold = *rng.pick(&[16u64, 32, 64, 100, 128, 255, 256, 500, 512, 1000, 1024]);
      let requests: u64 = parr(&phases[pi], "clients").iter().map(|c| c.as_array().map(|a| a.len() as u64).unwrap_or(0)).sum();
      phases[pi]["warmup"] = json!(threshold.saturating_sub(1 + rng.below(requests.max(1))));
    }
    json!({"faults": faults, "phases": phases, "sched": sched})
  }
  fn exec(&self, plan: &Value, mode: &ExecMode) -> Outcome {
    self.exec_inner(plan, mode)
  }
  fn shrink(&self, plan: &Value) -> Vec<Value> {
    let mut out = vec![];
    let phases = parr(plan, "phases");
    // drop a phase
    if phases.len() > 1 {
      for i in 0..phases.len() {
        let mut p = plan.clone();
        p["phases"].as_array_mut().unwrap().remove(i);
        out.push(p);
      }
    }
    for (pi, ph) in phases.iter().enumerate() {
      let clients = parr(ph, "clients");
      // drop a client
      if clients.len() > 1 {
        for ci in 0..clients.len() {
          let mut p = plan.clone();
          p["phases"][pi]["clients"].as_array_mut().unwrap().remove(ci);
          out.push(p);
        }
      }
      // fewer workers
      if pu64(ph, "workers") > 1 {
        let mut p = plan.clone();
        p["phases"][pi]["workers"] = json!(pu64(ph, "workers") - 1);
        out.push(p);
      }
      // no restart
      if ph.get("restart").map(|r| !r.is_null()).unwrap_or(false) {
        let mut p = plan.clone();
        p["phases"][pi]["restart"] = Value::Null;
        out.push(p);
      }
      if pi64(&ph["clock"], "tick") != 0 {
        let mut p = plan.clone();
        p["phases"][pi]["clock"]["tick"] = json!(0);
        out.push(p);
      }
      for (ci, c) in clients.iter().enumerate() {
        let reqs = c.as_array().map(|a| a.len()).unwrap_or(0);
        // drop the second half, then single requests
        if reqs >= 4 {
          let mut p = plan.clone();
          p["phases"][pi]["clients"][ci].as_array_mut().unwrap().truncate(reqs / 2);
          out.push(p);
        }
        for ri in (0..reqs).rev() {
          if reqs > 1 || clients.len() > 1 {
            let mut p = plan.clone();
            p["phases"][pi]["clients"][ci].as_array_mut().unwrap().remove(ri);
            out.push(p);
          }
        }
        // drop the transport faults of a request
        for ri in 0..reqs {
          let net = &c[ri]["net"];
          if net.is_object() && net.as_object().map(|o| o.len() > 1 || pu64(net, "segments") > 1).unwrap_or(false) {
            let mut p = plan.clone();
            p["phases"][pi]["clients"][ci][ri]["net"] = json!({"segments": 1});
            out.push(p);
          }
          // simpler echo value
          if pstr(&c[ri], "kind") == "echo" {
            if pstr(&c[ri], "dec") == "mix" {
              for d in ["s", "n"] {
                let mut p = plan.clone();
                p["phases"][pi]["clients"][ci][ri]["dec"] = json!(d);
                out.push(p);
              }
            }
            let text: Vec<char> = pstr(&c[ri], "s").chars().collect();
            if text.len() > 1 && matches!(pstr(&c[ri], "dec"), "s" | "mix") {
              let mut cands: Vec<String> = vec![text[..text.len() / 2].iter().collect(), text[text.len() / 2..].iter().collect()];
              for i in 0..text.len().min(16) {
                let mut t = text.clone();
                t.remove(i);
                cands.push(t.into_iter().collect());
              }
              for cand in cands {
                let mut p = plan.clone();
                p["phases"][pi]["clients"][ci][ri]["s"] = json!(cand);
                out.push(p);
              }
            }
            if pbool(&c[ri], "tck") {
              let mut p = plan.clone();
              p["phases"][pi]["clients"][ci][ri]["tck"] = json!(false);
              out.push(p);
            }
          }
        }
      }
    }
    if pstr(&plan["sched"], "kind") != "random" {
      let mut p = plan.clone();
      p["sched"]["kind"] = json!("random");
      out.push(p);
    }
    out
  }
  fn reseeds_when_shrinking(&self) -> u64 {
    12
  }
  fn rule_text(&self) -> String {
    "each run = the service in one process for 1..2 phases (a phase may start with a restart from a directory with storage faults): 1..3 simulated workers (one real actix App each over shared application data) and 1..3 clients with 2..8 requests each (definitions endpoints over the overlapping 10-model alphabet, evaluations of constant, echo and time-of-day decisions with generated values in FEEL and TCK form, 27 classes of malformed requests, clock jumps), transport faults per request (drop, duplicate, hold back, 2..5 body segments, reset mid-body, truncation, bit flip, oversize, dropped response) in two thirds of the runs, scheduler seeded random/PCT/URW; distinct = distinct server-side histories (labels with invoke/return stamps); non-trivial = at least two requests overlapped in time".to_string()
  }
  fn assumptions(&self) -> Vec<String> {
    vec![
      "actix-web's HTTP/1 codec, keep-alive, accept loop and worker threads are not simulated: requests enter at the Service boundary of the App assembled by hook H2, which repeats the service list of start_server".to_string(),
      "workers are interleaved at lock operations, Scope::push/pop and transport events, not run in parallel".to_string(),
      "the specification is relational (partial-match removal, evaluator clearing on no-ops and directory order are left open as in the property)".to_string(),
      "which alphabet models parse/build and the constants they return are established by running the code under test on each model alone".to_string(),
    ]
  }
  fn real_stub(&self) -> Value {
    json!({"real": ["actix-web router, Json/Path/String extractors with the real limits and error handler", "the eight handlers, do_* functions, DTO conversion, Value::jsonify", "dmntk-workspace, dmntk-model, dmntk-model-evaluator, FEEL parser and evaluator, decNumber"], "stub": ["TCP, HTTP/1 codec, accept loop, worker threads -> simulated transport and shuttle tasks", "std::sync::RwLock -> dmntk-verif-sync", "wall clock date -> simulated (hook H4)", "directory contents -> written by the simulator"]})
  }
  fn extra_pass(&self, _tier: Tier, seed: u64) -> Option<ExtraPass> {
    Some(loopback_pass(seed))
  }
  fn expected_probes(&self) -> Vec<&'static str> {
    vec![
      "probe.segment_delivered_while_other_request_in_flight",
      "probe.evaluate_overlapped_deploy",
      "probe.two_adds_overlapped",
      "fault.request_dropped",
      "fault.request_duplicated",
      "fault.connection_reset_mid_body",
      "fault.body_oversize",
      "fault.clock_jump",
      "restart",
      "epilogue.served",
    ]
  }
}

