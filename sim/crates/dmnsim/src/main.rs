fn main() {
  let ws = dmntk_workspace::Workspace::new(None);
  let data = dmntk_server::VerifAppData::new(ws);
  println!("{:?} {}", data.snapshot(), data.is_poisoned());
}
