//! dmnsim - deterministic simulation with fault injection for dmntk.rs.
//!
//!   dmnsim run <ID> --tier quick|thorough [--runs N] [--jobs J] [--max-wall SECONDS] [--no-evidence]
//!   dmnsim replay <file>
//!   dmnsim selftest determinism [ID...] [--runs N]
//!   dmnsim child ... / exec-plan ...      (internal)

mod c12;
mod c13;
mod c17;
mod c18;
mod c20;
mod core;
mod driver;
mod http;
mod jsonval;
mod models;
mod rng;
mod sched;
mod shimtest;
mod simrt;

use crate::core::{Sim, Tier};
use std::collections::BTreeSet;
use std::path::PathBuf;
use std::time::Duration;

fn lookup(id: &str) -> Option<&'static dyn Sim> {
  match id {
    "C12" => Some(&c12::C12),
    "C13" => Some(&c13::C13),
    "C17" => Some(&c17::C17),
    "C18" => Some(&c18::C18),
    "C20" => Some(&c20::C20),
    _ => None,
  }
}

const ALL: [&str; 5] = ["C12", "C13", "C17", "C18", "C20"];

/// Process time zones of blocks of runs, as POSIX TZ strings (independent of the zoneinfo files):
/// UTC, Europe/Warsaw, America/New_York, Australia/Lord_Howe (half-hour DST shift), Pacific/Kiritimati (+14).
pub const TZS: [&str; 5] = ["UTC0", "CET-1CEST,M3.5.0,M10.5.0/3", "EST5EDT,M3.2.0,M11.1.0", "<+1030>-10:30<+11>-11,M10.1.0,M4.1.0", "<+14>-14"];

fn arg_value(args: &[String], name: &str) -> Option<String> {
  args.iter().position(|a| a == name).and_then(|i| args.get(i + 1)).cloned()
}

fn env_u64(name: &str, default: u64) -> u64 {
  std::env::var(name).ok().and_then(|s| s.parse::<u64>().ok()).unwrap_or(default)
}

/// Every process of the simulator lives under a limit on its address space (4 GiB; VERIF_MEMCAP_MB changes it, 0 lifts
/// it): code under test that allocates without bound then ends as a failed allocation - an abort the parent attributes
/// to the run - instead of taking the machine down.
fn cap_memory() {
  let mb: u64 = std::env::var("VERIF_MEMCAP_MB").ok().and_then(|v| v.parse().ok()).unwrap_or(4096);
  if mb > 0 {
    let lim = libc::rlimit { rlim_cur: mb * 1024 * 1024, rlim_max: mb * 1024 * 1024 };
    unsafe {
      libc::setrlimit(libc::RLIMIT_AS, &lim);
    }
  }
}

fn main() {
  cap_memory();
  let args: Vec<String> = std::env::args().skip(1).collect();
  let code = real_main(&args);
  std::process::exit(code);
}

fn real_main(args: &[String]) -> i32 {
  let cmd = args.first().map(|s| s.as_str()).unwrap_or("");
  match cmd {
    "run" => {
      let id = args.get(1).cloned().unwrap_or_default();
      let sim = match lookup(&id) {
        Some(s) => s,
        None => {
          eprintln!("dmnsim: no simulator for property {}", id);
          return 2;
        }
      };
      let tier = arg_value(args, "--tier").and_then(|t| Tier::parse(&t)).unwrap_or(Tier::Quick);
      let opt = driver::BatchOptions {
        tier,
        seed: env_u64("VERIF_SEED", 20260924),
        jobs: arg_value(args, "--jobs").and_then(|s| s.parse().ok()).unwrap_or_else(|| env_u64("VERIF_JOBS", 16) as usize),
        runs_override: arg_value(args, "--runs").and_then(|s| s.parse().ok()),
        max_wall: Duration::from_secs(arg_value(args, "--max-wall").and_then(|s| s.parse().ok()).unwrap_or(match tier {
          Tier::Quick => 1_200,
          Tier::Thorough => 6 * 3_600,
        })),
        want_hashes: false,
        write_evidence: !args.iter().any(|a| a == "--no-evidence"),
      };
      driver::run_check(sim, &opt)
    }
    "replay" => {
      let file = PathBuf::from(args.get(1).cloned().unwrap_or_default());
      driver::replay_main(lookup, &file)
    }
    "child" => {
      let id = args.get(1).cloned().unwrap_or_default();
      let sim = match lookup(&id) {
        Some(s) => s,
        None => return 2,
      };
      let tier = arg_value(args, "--tier").and_then(|t| Tier::parse(&t)).unwrap_or(Tier::Quick);
      let seed = arg_value(args, "--seed").and_then(|s| s.parse().ok()).unwrap_or(0);
      let from = arg_value(args, "--from").and_then(|s| s.parse().ok()).unwrap_or(0);
      let to = arg_value(args, "--to").and_then(|s| s.parse().ok()).unwrap_or(0);
      let skip: BTreeSet<u64> = arg_value(args, "--skip").map(|s| s.split(',').filter_map(|x| x.parse().ok()).collect()).unwrap_or_default();
      let hashes = args.iter().any(|a| a == "--hashes");
      driver::child_main(sim, tier, seed, from, to, &skip, hashes)
    }
    "exec-plan" => {
      let id = args.get(1).cloned().unwrap_or_default();
      let sim = match lookup(&id) {
        Some(s) => s,
        None => return 2,
      };
      let file = PathBuf::from(args.get(2).cloned().unwrap_or_default());
      let mode = args.get(3).cloned().unwrap_or_else(|| "fresh".to_string());
      let reseeds = args.get(4).and_then(|s| s.parse().ok()).unwrap_or(0);
      driver::exec_plan_main(sim, &file, &mode, reseeds)
    }
    "serve" => {
      // the real service, for the loopback conformance pass
      let port = args.get(1).cloned().unwrap_or_else(|| "22022".to_string());
      let r = actix_rt::System::new("dmnsim-serve").block_on(dmntk_server::start_server(Some("127.0.0.1".to_string()), Some(port), None));
      if r.is_ok() {
        0
      } else {
        2
      }
    }
    "debug-builds" => {
      debug_builds();
      0
    }
    "debug-gen" => {
      debug_gen();
      0
    }
    "debug-c12-text" => {
      let doc: serde_json::Value = serde_json::from_str(&std::fs::read_to_string(&args[1]).unwrap()).unwrap();
      use std::io::Write;
      std::io::stdout().write_all(&c12::debug_text(&doc["plan"])).unwrap();
      0
    }
    "debug-workload" => {
      debug_workload();
      0
    }
    "debug-feel" => {
      debug_feel(&args[1..]);
      0
    }
    "debug-soup" => {
      let n: u64 = args.get(1).and_then(|s| s.parse().ok()).unwrap_or(20);
      let (mut ok, mut panics) = (0u64, 0u64);
      for i in 0..n {
        // a failed parse may leave the scope in any state: a fresh one per text
        let scope = dmntk_feel::Scope::default();
        let text = jsonval::feel_token_soup(i * 104729 + 7);
        let t2 = text.clone();
        let r = std::panic::catch_unwind(std::panic::AssertUnwindSafe(|| {
          let a = dmntk_feel_parser::parse_expression(&scope, &t2, false).is_ok();
          let b = dmntk_feel_parser::parse_unary_tests(&scope, &t2, false).is_ok();
          let c = dmntk_feel_parser::parse_context(&scope, &format!("{{s: {}}}", t2), false).is_ok();
          let d = dmntk_feel_parser::parse_textual_expression(&scope, &t2, false).is_ok();
          a || b || c || d
        }));
        match r {
          Ok(true) => ok += 1,
          Ok(false) => {}
          Err(_) => {
            panics += 1;
            if panics <= 30 {
              println!("PANIC on: {}", text);
            }
          }
        }
        if i < 15 {
          println!("{}", text);
        }
      }
      println!("{} of {} soups parse, {} panic", ok, n, panics);
      0
    }
    "debug-fuzz" => {
      let n: u64 = args.get(1).and_then(|s| s.parse().ok()).unwrap_or(20);
      let mut ok = 0;
      for i in 0..n {
        let body = c18::debug_builtin_body(i * 7919 + 13);
        let r = std::panic::catch_unwind(|| dmntk_feel_evaluator::evaluate_context(&dmntk_feel::Scope::default(), &body));
        let shown = match &r {
          Ok(Ok(c)) => {
            ok += 1;
            format!("=> {}", c.to_string().chars().take(100).collect::<String>())
          }
          Ok(Err(e)) => format!("=> error {}", e.to_string().chars().take(80).collect::<String>()),
          Err(_) => "=> PANIC".to_string(),
        };
        if i < 40 {
          println!("{}  {}", body.chars().take(150).collect::<String>(), shown);
        }
      }
      println!("{} of {} bodies evaluate to a context", ok, n);
      0
    }
    "debug-facts" => {
      debug_facts();
      0
    }
    "selftest" => {
      let what = args.get(1).map(|s| s.as_str()).unwrap_or("");
      match what {
        "determinism" => {
          let ids: Vec<&str> = args[2..].iter().filter(|a| lookup(a).is_some()).map(|s| s.as_str()).collect();
          let ids: Vec<&str> = if ids.is_empty() { ALL.to_vec() } else { ids };
          let runs = arg_value(args, "--runs").and_then(|s| s.parse().ok()).unwrap_or(2_000u64);
          let seed = env_u64("VERIF_SEED", 20260924);
          let mut bad = 0;
          for id in ids {
            let sim = lookup(id).unwrap();
            let mut reference: Option<std::collections::BTreeMap<u64, u64>> = None;
            for (pass, jobs) in [(0, 1usize), (1, 4), (2, 16), (3, 16)] {
              let opt = driver::BatchOptions {
                tier: Tier::Quick,
                seed,
                jobs,
                runs_override: Some(runs),
                max_wall: Duration::from_secs(3_600),
                want_hashes: true,
                write_evidence: false,
              };
              let summary = driver::run_batch_raw(sim, &opt);
              let mut diff = 0;
              if let Some(r) = &reference {
                for (i, h) in &summary.hashes {
                  if r.get(i) != Some(h) {
                    diff += 1;
                  }
                }
                if r.len() != summary.hashes.len() {
                  diff += 1;
                }
              } else {
                reference = Some(summary.hashes.clone());
              }
              println!("determinism {} pass {} jobs={} runs={} hashes={} differing={}", id, pass, jobs, summary.runs, summary.hashes.len(), diff);
              bad += diff;
            }
          }
          if bad == 0 {
            println!("determinism: all event-log hashes equal across passes and worker counts");
            0
          } else {
            println!("determinism: {} differing event-log hash(es)", bad);
            2
          }
        }
        "shim" => {
          driver::install_panic_hook();
          let n = arg_value(args, "--runs").and_then(|s| s.parse().ok()).unwrap_or(300u64);
          if shimtest::run(n) == 0 {
            0
          } else {
            2
          }
        }
        _ => {
          eprintln!("dmnsim selftest determinism [ID...] [--runs N] | shim [--runs N]");
          2
        }
      }
    }
    _ => {
      eprintln!("usage: dmnsim run <ID> --tier quick|thorough | replay <file> | selftest determinism");
      2
    }
  }
}

#[allow(dead_code)]
pub fn debug_facts() {
  let models = models::alphabet();
  for m in &models {
    match dmntk_model::parse(&m.xml) {
      Ok(defs) => match dmntk_model_evaluator::ModelEvaluator::new(&defs) {
        Ok(me) => {
          println!("{} builds: d={}", m.key, me.evaluate_invocable("d", &dmntk_feel::context::FeelContext::default()));
          for c in ["{x: true}", "{x: \"a\"}", "{x: 1}", "{x: [1,2]}", "{x: {a: 1}}", "{x: null}"] {
            let ctx = dmntk_feel_evaluator::evaluate_context(&dmntk_feel::Scope::default(), c).unwrap();
            println!("   echo {} = {}   tod = {}", c, me.evaluate_invocable("echo", &ctx), me.evaluate_invocable("tod", &ctx));
          }
        }
        Err(e) => println!("{} build error: {}", m.key, e),
      },
      Err(e) => println!("{} parse error: {}", m.key, e),
    }
  }
}

#[allow(dead_code)]
pub fn debug_builds() {
  let mut models: Vec<String> = vec!["gen".to_string()];
  if let Ok(text) = std::fs::read_to_string(c20::data_dir().join("c20_workload.json")) {
    if let Ok(serde_json::Value::Array(items)) = serde_json::from_str::<serde_json::Value>(&text) {
      for it in items {
        let m = it["model"].as_str().unwrap_or("").to_string();
        if !models.contains(&m) {
          models.push(m);
        }
      }
    }
  }
  let mut bad = 0;
  for m in &models {
    match c20::model_text(m) {
      Some(t) => match dmntk_model::parse(&t) {
        Ok(d) => match dmntk_model_evaluator::ModelEvaluator::new(&d) {
          Ok(_) => {}
          Err(e) => {
            bad += 1;
            println!("{} build error: {}", m, e)
          }
        },
        Err(e) => {
          bad += 1;
          println!("{} parse error: {}", m, e)
        }
      },
      None => println!("{} unreadable", m),
    }
  }
  println!("{} models, {} do not build", models.len(), bad);
}

/// Prints the result of every workload row (model, invocable, input of the compliance tests) and of 4000 generated
/// request contexts: two trees are compared by the difference of these listings (used to judge a repair).
pub fn debug_workload() {
  driver::install_panic_hook();
  let text = std::fs::read_to_string(c20::data_dir().join("c20_workload.json")).unwrap_or_default();
  let rows: serde_json::Value = serde_json::from_str(&text).unwrap_or(serde_json::Value::Null);
  let mut evaluators: std::collections::BTreeMap<String, Option<std::sync::Arc<dmntk_model_evaluator::ModelEvaluator>>> = Default::default();
  for it in rows.as_array().cloned().unwrap_or_default() {
    let (m, inv, ctx) = (it["model"].as_str().unwrap_or("").to_string(), it["invocable"].as_str().unwrap_or("").to_string(), it["ctx"].as_str().unwrap_or("").to_string());
    let me = evaluators.entry(m.clone()).or_insert_with(|| c20::model_text(&m).and_then(|t| dmntk_model::parse(&t).ok()).and_then(|d| dmntk_model_evaluator::ModelEvaluator::new(&d).ok())).clone();
    let line = match me {
      Some(me) => std::panic::catch_unwind(std::panic::AssertUnwindSafe(|| match dmntk_feel_evaluator::evaluate_context(&dmntk_feel::Scope::default(), &ctx) {
        Ok(input) => format!("{:?}", me.evaluate_invocable(&inv, &input)),
        Err(e) => format!("input error {}", e),
      }))
      .unwrap_or_else(|_| "PANIC".to_string()),
      None => "model does not build".to_string(),
    };
    println!("{}|{}|{} => {}", m, inv, ctx, line);
  }
  for seed in 0..4000u64 {
    let text = c13::generated_request_context(seed);
    let line = std::panic::catch_unwind(|| match dmntk_feel_evaluator::evaluate_context(&dmntk_feel::Scope::default(), &text) {
      Ok(c) => format!("{:?}", c),
      Err(e) => format!("error {}", e),
    })
    .unwrap_or_else(|_| "PANIC".to_string());
    println!("gen {} {} => {}", seed, text, line);
  }
}

#[allow(dead_code)]
pub fn debug_gen() {
  let t = c20::model_text("gen").unwrap();
  let d = dmntk_model::parse(&t).unwrap();
  let me = dmntk_model_evaluator::ModelEvaluator::new(&d).unwrap();
  for inv in ["num", "tmp", "rx", "c1", "c2", "c3", "c4", "svc", "tbl", "label", "twice", "rel", "lst", "inv", "fnd", "tp", "to", "tr", "tcnt", "tmin", "tdef", "tany", "tfirst", "tp2", "to2", "tu2", "tany2", "rx2", "inv2", "misc", "sw1", "sw2", "sw3", "sw4", "sw6", "sw7", "defaults", "nest"] {
    let ctx = dmntk_feel_evaluator::evaluate_context(&dmntk_feel::Scope::default(), if inv == "label" { r#"{n: 7, t: "ab12_34"}"# } else if inv == "twice" { "{p: 4}" } else { r#"{x: 7, s: "ab12_34"}"# }).unwrap();
    println!("{} = {}", inv, me.evaluate_invocable(inv, &ctx));
  }
}

#[allow(dead_code)]
pub fn debug_feel(exprs: &[String]) {
  // VERIF_DEBUG_DATE=2021-03-28 sets the simulated date (the process time zone is TZ, as always)
  if let Ok(d) = std::env::var("VERIF_DEBUG_DATE") {
    let p: Vec<i64> = d.split('-').filter_map(|x| x.parse().ok()).collect();
    if p.len() == 3 {
      simrt::clock_set(simrt::days_from_civil(p[0] as i32, p[1] as u8, p[2] as u8), 0);
    }
  }
  for e in exprs {
    let scope = dmntk_feel::Scope::default();
    let ctx = dmntk_feel_evaluator::evaluate_context(&scope, r#"{x: 7, s: "ab12_34"}"#).unwrap();
    let scope: dmntk_feel::Scope = ctx.into();
    match dmntk_feel_parser::parse_expression(&scope, e, false) {
      Ok(node) => match dmntk_feel_evaluator::evaluate(&scope, &node) {
        Ok(v) => println!("{} => {}", e, v),
        Err(err) => println!("{} => eval error {}", e, err),
      },
      Err(err) => println!("{} => parse error {}", e, err),
    }
  }
}
