//! In-process access to the real service: the `App` assembled by hook H2 behind actix-web's
//! `Service` boundary, a payload stream owned by the simulator, and futures polled with a no-op
//! waker (no tokio runtime, no socket).

use actix_http::error::PayloadError;
use actix_http::{Payload, Request};
use actix_web::dev::{Service, ServiceResponse};
use actix_web::http::Method;
use actix_web::{test, web, App};
use bytes::Bytes;
use dmntk_server::VerifAppData;
use futures_core::Stream;
use std::cell::RefCell;
use std::collections::VecDeque;
use std::future::Future;
use std::panic::{catch_unwind, AssertUnwindSafe};
use std::pin::Pin;
use std::rc::Rc;
use std::task::{Context, Poll};

/// What the simulator has delivered of a request body so far.
#[derive(Default)]
pub struct BodyState {
  pub chunks: VecDeque<Vec<u8>>,
  pub eof: bool,
  /// Connection reset: the stream ends with `PayloadError::Incomplete`.
  pub reset: bool,
  pub polled_pending: u64,
}

pub struct SimBody(pub Rc<RefCell<BodyState>>);

impl Stream for SimBody {
  type Item = Result<Bytes, PayloadError>;
  fn poll_next(self: Pin<&mut Self>, _cx: &mut Context<'_>) -> Poll<Option<Self::Item>> {
    let mut st = self.0.borrow_mut();
    if let Some(chunk) = st.chunks.pop_front() {
      return Poll::Ready(Some(Ok(Bytes::from(chunk))));
    }
    if st.reset {
      st.reset = false;
      st.eof = true;
      return Poll::Ready(Some(Err(PayloadError::Incomplete(None))));
    }
    if st.eof {
      return Poll::Ready(None);
    }
    st.polled_pending += 1;
    Poll::Pending
  }
}

/// A response as the worker produced it.
#[derive(Clone, Debug)]
pub struct Resp {
  pub status: u16,
  pub content_type: String,
  pub body: Vec<u8>,
}

pub type BoxedCall = Pin<Box<dyn Future<Output = Result<ServiceResponse<actix_web::dev::Body>, actix_web::Error>>>>;

pub trait AppService {
  fn start(&mut self, req: Request) -> BoxedCall;
}

struct Wrapper<S>(S);

impl<S> AppService for Wrapper<S>
where
  S: Service<Request = Request, Response = ServiceResponse<actix_web::dev::Body>, Error = actix_web::Error>,
  S::Future: 'static,
{
  fn start(&mut self, req: Request) -> BoxedCall {
    Box::pin(self.0.call(req))
  }
}

fn noop_context<R>(f: impl FnOnce(&mut Context<'_>) -> R) -> R {
  let waker = futures_util::task::noop_waker();
  let mut cx = Context::from_waker(&waker);
  f(&mut cx)
}

/// Polls a future until it is ready, at most `max` times.
pub fn drive<F: Future>(mut fut: Pin<Box<F>>, max: usize) -> Option<F::Output> {
  for _ in 0..max {
    if let Poll::Ready(v) = noop_context(|cx| fut.as_mut().poll(cx)) {
      return Some(v);
    }
  }
  None
}

/// Builds the application of one simulated worker over the shared data: the same data, JSON
/// configuration, services and default service as `start_server`.
pub fn build_app(data: &VerifAppData) -> Option<Box<dyn AppService>> {
  let d = data.clone();
  let fut = test::init_service(App::new().configure(move |cfg| d.configure(cfg)).default_service(web::route().to(VerifAppData::default_handler)));
  let service = drive(Box::pin(fut), 64)?;
  Some(Box::new(Wrapper(service)))
}

/// Request line, headers and the body stream state.
pub fn make_request(method: &str, path: &str, content_type: Option<&str>, content_length: Option<usize>, body: Rc<RefCell<BodyState>>) -> Request {
  let m = match method {
    "GET" => Method::GET,
    "PUT" => Method::PUT,
    "DELETE" => Method::DELETE,
    _ => Method::POST,
  };
  let mut tr = test::TestRequest::with_uri(path).method(m);
  if let Some(ct) = content_type {
    tr = tr.header("content-type", ct);
  }
  if let Some(n) = content_length {
    tr = tr.header("content-length", n.to_string());
  }
  let req = tr.to_request();
  let stream: actix_http::PayloadStream = Box::pin(SimBody(body));
  let (req, _) = req.replace_payload(Payload::Stream(stream));
  req
}

pub enum PollResult {
  Pending,
  Ready(Resp),
  /// The service returned `Err` (actix renders such errors itself; recorded as what it renders).
  Panicked(String),
}

/// Polls a request future once; a ready response is read completely.
pub fn poll_call(call: &mut BoxedCall) -> PollResult {
  let polled = catch_unwind(AssertUnwindSafe(|| noop_context(|cx| call.as_mut().poll(cx))));
  match polled {
    Err(_) => PollResult::Panicked(crate::driver::take_last_panic()),
    Ok(Poll::Pending) => PollResult::Pending,
    Ok(Poll::Ready(Ok(resp))) => PollResult::Ready(read_response(resp)),
    Ok(Poll::Ready(Err(err))) => {
      // what the HTTP layer would send for an error that reaches it
      let resp: actix_web::HttpResponse = err.into();
      PollResult::Ready(read_http_response(resp))
    }
  }
}

fn read_response(resp: ServiceResponse<actix_web::dev::Body>) -> Resp {
  let status = resp.status().as_u16();
  let content_type = resp.headers().get("content-type").and_then(|v| v.to_str().ok()).unwrap_or("").to_string();
  let body = drive(Box::pin(test::read_body(resp)), 1024).map(|b| b.to_vec()).unwrap_or_default();
  Resp { status, content_type, body }
}

fn read_http_response(mut resp: actix_web::HttpResponse) -> Resp {
  let status = resp.status().as_u16();
  let content_type = resp.headers().get("content-type").and_then(|v| v.to_str().ok()).unwrap_or("").to_string();
  let body = match resp.take_body() {
    actix_web::dev::ResponseBody::Body(b) | actix_web::dev::ResponseBody::Other(b) => match b {
      actix_web::dev::Body::Bytes(bytes) => bytes.to_vec(),
      _ => vec![],
    },
  };
  Resp { status, content_type, body }
}

/// Percent-encodes a path segment (everything but unreserved characters).
pub fn percent_encode(segment: &str) -> String {
  let mut out = String::new();
  for b in segment.bytes() {
    if b.is_ascii_alphanumeric() || matches!(b, b'-' | b'.' | b'_' | b'~') {
      out.push(b as char);
    } else {
      out.push_str(&format!("%{:02X}", b));
    }
  }
  out
}

